package main

import (
	"encoding/json"
	"fmt"
	"sort"
	"strings"

	"pgregory.net/rapid"

	"verif/casefmt"
)

// C12 — results are plain self-contained data and evaluation is deterministic.
//
// (1) every successful result any run produces is walked in the child (Go
// types, `<-` keys, cycles, encoding/json round trip);
// (2) the same query on an equal input is executed under several different
// (map order, goroutine schedule, stub latency) configurations: the outcome
// (success/error) must be the same, successful results must be equal as
// multisets, and as sequences when no grouping/join is involved or ORDER BY
// determines a total order.

type c12Expect struct {
	Query    string `json:"query"`
	SeqFixed bool   `json:"seq_fixed"` // sequence (not just multiset) is determined
	Sites    []int  `json:"sites,omitempty"`
	Shape    string `json:"shape"`
}

type c12Gen struct {
	t     *rapid.T
	site  int
	sites []int
	root  string
	depth int
}

func (g *c12Gen) pick(label string, xs ...string) string {
	return rapid.SampledFrom(xs).Draw(g.t, label)
}

func (g *c12Gen) num(p string) string { // numeric-valued expression over a row with prefix p
	g.depth++
	defer func() { g.depth-- }()
	if g.depth > 3 {
		return p + g.pick("numcol", "id", "a")
	}
	switch g.pick("num_kind", "col", "col", "lit", "add", "mul", "sub", "div", "mod", "neg", "case", "if", "paren", "objpath") {
	case "col":
		return p + g.pick("numcol", "id", "a")
	case "lit":
		return fmt.Sprint(rapid.IntRange(0, 30).Draw(g.t, "numlit"))
	case "add":
		return fmt.Sprintf("%s + %s", g.num(p), g.num(p))
	case "mul":
		return fmt.Sprintf("%s * %s", g.num(p), g.num(p))
	case "sub":
		return fmt.Sprintf("%s - %s", g.num(p), g.num(p))
	case "div":
		return fmt.Sprintf("%s / 2", g.num(p))
	case "mod":
		return fmt.Sprintf("%s %% 3", g.num(p))
	case "neg":
		return "-" + p + "a"
	case "case":
		return fmt.Sprintf("CASE WHEN %s THEN %s ELSE %s END", g.boolean(p), g.num(p), g.num(p))
	case "if":
		return fmt.Sprintf("IF(%s, %s, %s)", g.boolean(p), g.num(p), g.num(p))
	case "paren":
		return "(" + g.num(p) + ")"
	case "objpath":
		return p + "o.p"
	}
	return p + "a"
}

func (g *c12Gen) str(p string) string {
	g.depth++
	defer func() { g.depth-- }()
	if g.depth > 3 {
		return p + "s"
	}
	switch g.pick("str_kind", "col", "lit", "concat", "substr", "lower", "upper", "case", "changetype", "objpath") {
	case "col":
		return p + "s"
	case "lit":
		return sqlLit(g.pick("strlit", "x", "xy", "z", ""))
	case "concat":
		return fmt.Sprintf("CONCAT(%s, '-', %s)", g.str(p), g.num(p))
	case "substr":
		return fmt.Sprintf("SUBSTR(%s, 1, 1)", p+"s")
	case "lower":
		return fmt.Sprintf("TO_LOWER(%s)", g.str(p))
	case "upper":
		return fmt.Sprintf("TO_UPPER(%s)", g.str(p))
	case "case":
		return fmt.Sprintf("CASE WHEN %s THEN %s ELSE %s END", g.boolean(p), g.str(p), g.str(p))
	case "changetype":
		return fmt.Sprintf("CHANGETYPE(%s, 'string')", p+"a")
	case "objpath":
		return p + "o.q"
	}
	return p + "s"
}

func (g *c12Gen) boolean(p string) string {
	g.depth++
	defer func() { g.depth-- }()
	if g.depth > 3 {
		return p + "a >= 10"
	}
	switch g.pick("bool_kind", "cmp", "cmp", "and", "or", "not", "isnull", "istrue", "between", "in", "notin", "like", "col", "lit", "strcmp", "exists") {
	case "cmp":
		return fmt.Sprintf("%s %s %s", g.num(p), g.pick("cmpop", "=", "!=", "<", "<=", ">", ">="), g.num(p))
	case "and":
		return fmt.Sprintf("(%s AND %s)", g.boolean(p), g.boolean(p))
	case "or":
		return fmt.Sprintf("(%s OR %s)", g.boolean(p), g.boolean(p))
	case "not":
		return fmt.Sprintf("NOT (%s)", g.boolean(p))
	case "isnull":
		return fmt.Sprintf("%s IS %sNULL", p+g.pick("nullcol", "s", "z", "a"), g.pick("isnot", "", "NOT "))
	case "istrue":
		return fmt.Sprintf("%sf IS %s", p, g.pick("istruth", "TRUE", "FALSE", "NOT TRUE", "NOT FALSE"))
	case "between":
		return fmt.Sprintf("%s BETWEEN 5 AND 25", g.num(p))
	case "in":
		return fmt.Sprintf("%sid IN (1, 2, %d)", p, rapid.IntRange(3, 5).Draw(g.t, "inlit"))
	case "notin":
		return fmt.Sprintf("%ss NOT IN ('x', 'q')", p)
	case "like":
		return fmt.Sprintf("%ss LIKE %s", p, sqlLit(g.pick("likepat", "x%", "%y", "%", "z")))
	case "col":
		return p + "f"
	case "lit":
		return g.pick("boollit", "TRUE", "FALSE")
	case "strcmp":
		return fmt.Sprintf("%s = %s", g.str(p), g.str(p))
	case "exists":
		if p != "" {
			return p + "f"
		}
		return fmt.Sprintf("EXISTS (SELECT v FROM n WHERE v >= %d)", rapid.IntRange(0, 4).Draw(g.t, "exk"))
	}
	return p + "f"
}

// item draws one select-list item (with alias). nested=false inside subqueries.
func (g *c12Gen) item(p string, i int, top bool) string {
	alias := fmt.Sprintf("c%d", i)
	kinds := []string{"col", "num", "str", "bool", "null", "tuple", "array", "subquery", "exists", "async", "backref", "nestedcol", "first", "last", "elementat", "once", "objcol", "fuse", "asyncstr", "subquery_async",
		"fuse_sub", "await", "star_sub", "selector", "hash", "encode", "fuse_alias", "report", "constant", "scoped", "marker_col", "await_sub", "nested_marker", "fuse_async", "fuse_await"}
	if !top || p != "" {
		kinds = []string{"col", "num", "str", "bool", "null", "tuple", "array", "async", "objcol"}
	}
	switch k := g.pick("item_kind", kinds...); k {
	case "col":
		return p + g.pick("anycol", "id", "a", "s", "f", "z")
	case "num":
		return g.num(p) + " AS " + alias
	case "str":
		return g.str(p) + " AS " + alias
	case "bool":
		return g.boolean(p) + " AS " + alias
	case "null":
		return "NULL AS " + alias
	case "tuple":
		return fmt.Sprintf("(%s, %s, 'lit') AS %s", g.num(p), p+"s", alias)
	case "array":
		return fmt.Sprintf("ARRAY(%s, %s, 7) AS %s", g.num(p), g.str(p), alias)
	case "subquery":
		return fmt.Sprintf("(SELECT v, w FROM n WHERE v >= %d) AS %s", rapid.IntRange(0, 4).Draw(g.t, "sqk"), alias)
	case "subquery_async":
		g.site++
		g.sites = append(g.sites, g.site)
		return fmt.Sprintf("(SELECT v, ASYNC.fx(%d, v) AS av FROM n) AS %s", g.site, alias)
	case "exists":
		return fmt.Sprintf("EXISTS (SELECT v FROM n WHERE v >= %d) AS %s", rapid.IntRange(0, 4).Draw(g.t, "exk"), alias)
	case "async":
		g.site++
		g.sites = append(g.sites, g.site)
		return fmt.Sprintf("ASYNC.fx(%d, %sa) AS %s", g.site, p, alias)
	case "asyncstr":
		g.site++
		g.sites = append(g.sites, g.site)
		return fmt.Sprintf("ASYNC.fid(%d, %ss) AS %s", g.site, p, alias)
	case "once":
		g.site++
		g.sites = append(g.sites, g.site)
		return fmt.Sprintf("ONCE.fx(%d, 5) AS %s", g.site, alias)
	case "backref":
		return fmt.Sprintf("(SELECT ip FROM `<-%smeta`) AS %s", g.root, alias)
	case "nestedcol":
		return "n AS " + alias
	case "objcol":
		return p + "o AS " + alias
	case "first":
		return fmt.Sprintf("FIRST(n) AS %s", alias)
	case "last":
		return fmt.Sprintf("LAST(n) AS %s", alias)
	case "elementat":
		return fmt.Sprintf("ELEMENTAT(n, 0) AS %s", alias)
	case "fuse":
		return "FUSE(o)"
	case "marker_col":
		// the back-reference itself read as a value: the enclosing document (CTE results are written into it)
		return fmt.Sprintf("%s AS %s", g.pick("marker_form", "(SELECT `<-` AS up FROM dual)", "(SELECT `<-` AS up, v FROM n)", "(SELECT ARRAY(`<-`, 1) AS up FROM dual)",
			"(SELECT (`<-`, 2) AS up FROM dual)", "(SELECT FUSE(`<-`) FROM dual)", "(SELECT `<-"+g.root+"meta` AS m, `<-` AS up FROM dual)", "(SELECT (SELECT `<-` AS d FROM dual) AS y FROM dual)"), alias)
	case "await_sub":
		// the awaited expression is a nested select: what it defers is registered while the deferred work is already running
		g.site++
		g.sites = append(g.sites, g.site)
		return fmt.Sprintf("AWAIT(%s) AS %s", g.pick("await_sub_form", "(SELECT * FROM dual)", fmt.Sprintf("(SELECT ASYNC.fx(%d, a) AS v FROM dual)", g.site), "(SELECT v FROM n)",
			fmt.Sprintf("AWAIT(ASYNC.fx(%d, a))", g.site), "AWAIT(a)", "FUSE(o)", "(SELECT FUSE(o) FROM dual)"), alias)
	case "nested_marker":
		// engine-internal markers (omit, fuse) as arguments of other expressions
		return fmt.Sprintf("%s AS %s", g.pick("nested_marker_form", "ARRAY(SETVAR('k', "+p+"a))", "ARRAY(REPORT('e'), 1)", "ARRAY(FUSE("+p+"o))", "(FUSE("+p+"o), 1)", "CONCAT('a', SETVAR('k', 1))",
			"IF("+p+"f, FUSE("+p+"o), 0)", "CASE WHEN "+p+"f THEN SETVAR('k', 2) ELSE 1 END", "FIRST(ARRAY(FUSE("+p+"o)))"), alias)
	case "fuse_async":
		g.site++
		g.sites = append(g.sites, g.site)
		return fmt.Sprintf("FUSE((SELECT ASYNC.fx(%d, a) AS fa%d FROM dual))", g.site, g.site)
	case "fuse_await":
		// the fused row of a nested select holds the slot of an AWAIT: a slot around a slot (ASYNC), or one that
		// resolves to "no column" (SETVAR)
		if g.pick("fuse_await_form", "async", "setvar") == "setvar" {
			return fmt.Sprintf("FUSE((SELECT AWAIT(SETVAR('k', %sid)) AS fv%d, %sid AS fw%d FROM dual))", p, i, p, i)
		}
		g.site++
		g.sites = append(g.sites, g.site)
		return fmt.Sprintf("FUSE((SELECT AWAIT(ASYNC.fx(%d, a)) AS fa%d FROM dual))", g.site, g.site)
	case "fuse_alias":
		// an aliased FUSE blends the keys in under a prefix
		return fmt.Sprintf("FUSE(%s) AS %s", g.pick("fuse_alias_arg", "o", "(SELECT p, q FROM o)", "(SELECT * FROM dual)"), alias)
	case "report":
		// REPORT hands an error to the caller's handler and adds no column (an omit marker internally)
		return g.pick("report_form", "REPORT('e')", "REPORT_WHEN("+p+"a >= 10, 'big')", "REPORT_WHEN(FALSE, 'never')")
	case "constant":
		return fmt.Sprintf("CONSTANT(%s) AS %s", g.pick("constant_name", "'unit'", "'conf'", "'levels'"), alias)
	case "scoped":
		g.site++
		g.sites = append(g.sites, g.site)
		return fmt.Sprintf("SCOPED.fx(%d, %sa) AS %s", g.site, p, alias)
	case "hash":
		return fmt.Sprintf("HASH(%s, %s) AS %s", g.pick("hash_arg", p+"s", p+"a", p+"id", "'lit'", p+"o", p+"n"), sqlLit(g.pick("hash_fn", "sha1", "sha256", "sha512", "md5")), alias)
	case "encode":
		base := sqlLit(g.pick("enc_base", "base64", "base32", "hex"))
		if g.pick("enc_round", "enc", "roundtrip") == "enc" {
			return fmt.Sprintf("ENCODE(%s, %s) AS %s", g.pick("enc_arg", p+"s", p+"a", "'lit'", p+"o"), base, alias)
		}
		return fmt.Sprintf("DECODE(ENCODE(%ss, %s), %s) AS %s", p, base, base, alias)
	case "fuse_sub":
		return fmt.Sprintf("FUSE((%s))", g.pick("fuse_sub_q", "SELECT * FROM dual", "SELECT ip FROM `<-"+g.root+"meta`", "SELECT p, q FROM o", "SELECT *, 1 AS one FROM o"))
	case "star_sub":
		return fmt.Sprintf("(%s) AS %s", g.pick("star_sub_q", "SELECT * FROM dual", "SELECT * FROM o", "SELECT *, v + 1 AS v1 FROM n", "SELECT * FROM `<-"+g.root+"meta`"), alias)
	case "await":
		switch g.pick("await_kind", "col", "async", "setvar", "num") {
		case "col":
			return fmt.Sprintf("AWAIT(%sa) AS %s", p, alias)
		case "async":
			g.site++
			g.sites = append(g.sites, g.site)
			return fmt.Sprintf("AWAIT(ASYNC.fx(%d, %sa)) AS %s", g.site, p, alias)
		case "setvar":
			return fmt.Sprintf("AWAIT(SETVAR('k', %sid)) AS %s", p, alias)
		}
		return fmt.Sprintf("AWAIT(%s) AS %s", g.num(p), alias)
	case "selector":
		return rapid.SampledFrom([]string{"`n[0].v` AS v0", "`n[(0:end)].w` AS ws", "`distinct=>n[each].w` AS dw", "`n{v|string, w}` AS rs", "`mix=>n[each].v` AS mx", "`o.p` AS op"}).Draw(g.t, "selcol")
	}
	return p + "id"
}

func (g *c12Gen) items(p string, top bool) string {
	n := rapid.IntRange(1, 4).Draw(g.t, "nitems")
	seen := map[string]bool{}
	var out []string
	for i := 0; i < n; i++ {
		it := g.item(p, i, top)
		if seen[it] {
			continue
		}
		seen[it] = true
		out = append(out, it)
	}
	return strings.Join(out, ", ")
}

func c12Doc(t *rapid.T) map[string]any {
	nt := rapid.IntRange(0, 5).Draw(t, "nt")
	rows := []any{}
	for i := 0; i < nt; i++ {
		nn := rapid.IntRange(0, 3).Draw(t, "nn")
		nested := []any{}
		for j := 0; j < nn; j++ {
			nested = append(nested, map[string]any{"v": float64(rapid.IntRange(0, 4).Draw(t, "v")), "w": rapid.SampledFrom([]string{"p", "q"}).Draw(t, "w")})
		}
		var z any
		if rapid.Bool().Draw(t, "z_null") {
			z = float64(rapid.IntRange(0, 2).Draw(t, "z"))
		}
		rows = append(rows, map[string]any{
			"id": float64(i + 1),
			"a":  float64(rapid.IntRange(0, 3).Draw(t, "a") * 10),
			"s":  rapid.SampledFrom([]string{"x", "xy", "z"}).Draw(t, "s"),
			"f":  rapid.Bool().Draw(t, "f"),
			"z":  z,
			"n":  nested,
			"o":  map[string]any{"p": float64(rapid.IntRange(1, 3).Draw(t, "op")), "q": rapid.SampledFrom([]string{"k", "m"}).Draw(t, "oq")},
		})
	}
	nu := rapid.IntRange(0, 3).Draw(t, "nu")
	us := []any{}
	for i := 0; i < nu; i++ {
		var k any
		if rapid.Bool().Draw(t, "k_null") {
			k = float64(rapid.IntRange(0, 2).Draw(t, "uk"))
		}
		us = append(us, map[string]any{"id": float64(rapid.IntRange(1, 4).Draw(t, "uid")), "b": rapid.SampledFrom([]string{"k", "m"}).Draw(t, "b"), "k": k})
	}
	// grid: rows of t, one dimension deeper (FROM over an array of arrays)
	grid := []any{}
	for i := 0; i+1 < len(rows); i += 2 {
		grid = append(grid, []any{rows[i], rows[i+1]})
	}
	if len(rows)%2 == 1 {
		grid = append(grid, []any{rows[len(rows)-1]})
	}
	// one: rows with exactly one key
	one := []any{}
	for i := 0; i < len(rows)+1; i++ {
		one = append(one, map[string]any{"k": float64(i + 1)})
	}
	return map[string]any{"t": rows, "u": us, "meta": map[string]any{"ip": "10.0.0.1"}, "grid": grid, "one": one, "kk": 1.0,
		"col": map[string]any{"a": map[string]any{"b": 2.0}, "a_b": 1.0, "c": map[string]any{"d_e": 3.0, "f": "x"}, "c_d": map[string]any{"e": 4.0}, "z": "last"},
		// (two nested objects whose flattened keys coincide, and no flat key with an underscore beside them)
		"col2": map[string]any{"a": map[string]any{"b_c": "from a.b_c"}, "a_b": map[string]any{"c": "from a_b.c"}, "z": 1.0}}
}

func genC12(t *rapid.T) *Bundle {
	doc := c12Doc(t)
	wrapped := rapid.IntRange(0, 3).Draw(t, "wrapped") == 0
	root := ""
	if wrapped {
		root = "root."
	}
	g := &c12Gen{t: t, root: root}
	T, U := root+"t", root+"u"
	shape := g.pick("shape", "plain", "plain", "where", "order_total", "order_ties", "limit", "distinct", "group", "whole_agg", "join", "pjoin", "derived", "cte", "cte_direct", "dual", "union", "slice", "alias", "star", "nested_from", "group_star", "in_subquery", "having", "cte_col", "cte_twice", "offset_window", "join_into", "join_into", "join_unaliased", "distinct_async", "grid", "grid_cte", "grid_distinct", "join_derived_side", "cte_dual_star", "join_limit", "nonfinite", "async_arg", "defaultkey", "mix_collide", "scope_routes")
	seq := true
	var q string
	switch shape {
	case "plain":
		q = fmt.Sprintf("SELECT %s FROM %s", g.items("", true), T)
	case "where":
		q = fmt.Sprintf("SELECT %s FROM %s WHERE %s", g.items("", true), T, g.boolean(""))
	case "order_total":
		q = fmt.Sprintf("SELECT %s FROM %s ORDER BY id %s", g.items("", true), T, g.pick("dir", "ASC", "DESC"))
	case "order_ties":
		q = fmt.Sprintf("SELECT %s FROM %s ORDER BY a %s, s", g.items("", true), T, g.pick("dir", "ASC", "DESC"))
	case "limit":
		q = fmt.Sprintf("SELECT %s FROM %s LIMIT %d OFFSET %d", g.items("", true), T, rapid.IntRange(0, 3).Draw(t, "lim"), rapid.IntRange(0, 2).Draw(t, "off"))
	case "distinct":
		q = fmt.Sprintf("SELECT DISTINCT %s FROM %s", g.pick("dcols", "a", "s", "a, s", "f", "s, f"), T)
	case "group":
		q = fmt.Sprintf("SELECT s, COUNT(*) AS c, SUM(a) AS sa, MAX(id) AS mx FROM %s GROUP BY s", T)
		seq = false
	case "group_star":
		q = fmt.Sprintf("SELECT * FROM %s GROUP BY %s", T, g.pick("gcols", "s", "a", "s, f"))
		seq = false
	case "having":
		q = fmt.Sprintf("SELECT a, COUNT(*) AS c FROM %s WHERE %s GROUP BY a HAVING COUNT(*) >= %d", T, g.boolean(""), rapid.IntRange(1, 2).Draw(t, "hk"))
		seq = false
	case "whole_agg":
		q = fmt.Sprintf("SELECT COUNT(*) AS c, SUM(a) AS sa, MIN(id) AS mn, AVG(a) AS av FROM %s WHERE %s", T, g.boolean(""))
	case "join", "pjoin":
		jt := g.pick("jt", "JOIN", "LEFT JOIN", "RIGHT JOIN", "HASH_JOIN", "STRAIGHT_JOIN")
		if shape == "pjoin" {
			jt = "PARALLEL " + g.pick("pjt", "JOIN", "LEFT JOIN", "HASH_JOIN", "LEFT HASH_JOIN")
		}
		op := "="
		if !strings.Contains(jt, "HASH") && !strings.Contains(jt, "STRAIGHT") {
			op = g.pick("jop", "=", "=", "<", ">=")
		}
		sel := "*"
		if rapid.Bool().Draw(t, "join_cols") {
			sel = g.items("x.", true)
		}
		// the join columns may hold NULLs (z on the left, k on the right)
		cols := strings.Split(g.pick("join_cols_on", "id:id", "id:id", "z:k", "id:k", "z:id"), ":")
		q = fmt.Sprintf("SELECT %s FROM %s x %s %s y ON x.%s %s y.%s", sel, T, jt, U, cols[0], op, cols[1])
		seq = false
	case "distinct_async":
		g.site++
		g.sites = append(g.sites, g.site)
		q = fmt.Sprintf("SELECT DISTINCT %s, ASYNC.fx(%d, a) AS y FROM %s", g.pick("dcol", "s", "f", "z"), g.site, T)
	case "join_into":
		jt := g.pick("jt_into", "JOIN", "LEFT JOIN", "RIGHT JOIN", "HASH_JOIN", "LEFT HASH_JOIN", "PARALLEL LEFT JOIN", "PARALLEL JOIN")
		op := "="
		if !strings.Contains(jt, "HASH") {
			op = g.pick("jop_into", "=", "<", ">=", "!=", "<=")
		}
		q = fmt.Sprintf("SELECT * FROM %s x %s %s y ON x.id %s y.id INTO j", T, jt, U, op)
		seq = false
	case "join_unaliased":
		q = fmt.Sprintf("SELECT * FROM %s %s %s y ON id %s y.id", T, g.pick("jt_un", "LEFT JOIN", "JOIN", "PARALLEL LEFT JOIN"), U, g.pick("jop_un", "=", "<", ">="))
		seq = false
	case "derived":
		q = fmt.Sprintf("SELECT * FROM (SELECT %s FROM %s) d", g.items("", true), T)
	case "cte":
		q = fmt.Sprintf("WITH c AS (SELECT %s FROM %s) SELECT * FROM c", g.items("", true), T)
	case "cte_direct":
		q = fmt.Sprintf("WITH c AS (SELECT id, n FROM %s) SELECT v FROM `c.n`", T)
	case "cte_col":
		q = fmt.Sprintf("WITH c AS (SELECT %s FROM %s) SELECT %s FROM dual", g.items("", true), T, g.pick("cte_col_sel", "c", "c AS cc, "+root+"meta", "*", "c, *", "`{c}` AS p", "`{c, "+strings.TrimSuffix(root, ".")+"}` AS p"))
	case "cte_twice":
		q = fmt.Sprintf("WITH c AS (SELECT id, a FROM %s) SELECT id, (SELECT a FROM `<-c` WHERE a >= 10) AS again FROM c", T)
	case "join_derived_side":
		// a derived table as one side of a join: what it defers (ASYNC slots, AWAIT) has to reach the joining query
		q = fmt.Sprintf("SELECT * FROM (SELECT id, %s FROM %s) x %s %s y ON x.id = y.id", g.items("", true), T, g.pick("jds_jt", "JOIN", "LEFT JOIN", "PARALLEL JOIN", "HASH_JOIN"), U)
		if rapid.Bool().Draw(t, "jds_swap") {
			q = fmt.Sprintf("SELECT * FROM %s y %s (SELECT id, %s FROM %s) x ON x.id = y.id", U, g.pick("jds_jt2", "JOIN", "RIGHT JOIN"), g.items("", true), T)
		}
		seq = false
	case "defaultkey":
		// DEFAULTKEY over rows with a single key, reached through a star subquery (which carries the marker on the way)
		q = fmt.Sprintf("SELECT %s AS d FROM %sone", g.pick("defaultkey_form", "DEFAULTKEY((SELECT * FROM dual))", "DEFAULTKEY((SELECT k FROM dual))", "DEFAULTKEY((SELECT * FROM dual)) IS NULL", "(SELECT DEFAULTKEY((SELECT * FROM dual)) AS dd FROM dual)"), root)
	case "join_limit":
		// LIMIT over a join without ORDER BY: which rows make the window depends on the order the join emits them in
		q = fmt.Sprintf("SELECT * FROM %s x %s %s y ON x.id %s y.id LIMIT %d", T, g.pick("jl_jt", "JOIN", "LEFT JOIN", "PARALLEL JOIN", "STRAIGHT_JOIN"), U, g.pick("jl_op", "<=", "=", "!="), rapid.IntRange(1, 2).Draw(t, "jl_lim"))
		seq = false
	case "nonfinite":
		// arithmetic that leaves the finite numbers
		q = fmt.Sprintf("SELECT id, %s AS c0 FROM %s", g.pick("nonfinite_form", "a / 0", "a % 0", "1e308 * 10", "-1e308 * 10", "a / (id - 1)", "CHANGETYPE('NaN', 'double')", "CHANGETYPE('-Inf', 'double')"), T)
	case "async_arg":
		// the pending slot of an ASYNC call handed to another function as an argument
		g.site++
		g.sites = append(g.sites, g.site)
		q = fmt.Sprintf("SELECT id, %s AS c0 FROM %s", fmt.Sprintf(g.pick("async_arg_form", "CONCAT('x', ASYNC.fx(%d, a))", "ARRAY(ASYNC.fx(%d, a), 1)", "HASH(ASYNC.fx(%d, a), 'md5')",
			// (AWAIT hands out a slot of its own, filled when the query settles: the same goes for it)
			"ARRAY(AWAIT(ASYNC.fx(%d, a)))", "CONCAT(AWAIT(ASYNC.fx(%d, a)), '!')", "(AWAIT(ASYNC.fx(%d, a)), 1)"), g.site), T)
	case "mix_collide":
		// mix=> flattens nested objects into outer_inner keys: an object that already has such a key, or two nested
		// objects whose flattened keys coincide, must come out the same way every time
		obj := g.pick("mix_collide_obj", "col", "col2")
		q = fmt.Sprintf("SELECT %s FROM %s", g.pick("mix_collide_sel", "`mix=>"+root+obj+"` AS m", "`mix=>"+root+"col.c` AS m, `mix=>"+root+obj+"` AS m2", "(SELECT * FROM `mix=>"+root+obj+"`) AS m"), g.pick("mix_collide_from", "dual", T))
		if rapid.IntRange(0, 3).Draw(t, "mix_from") == 0 {
			q = fmt.Sprintf("SELECT * FROM `mix=>%s%s`", root, obj)
		}
	case "scope_routes":
		// the enclosing document (the scope CTE thunks live in, carrying the marker of the level above) reached by other
		// routes than the column `<-`: FROM `<-` AS p, two steps up, the whole-row selectors over dual
		with := g.pick("scope_with", "", "WITH c AS (SELECT 1 AS one FROM dual) ")
		q = with + fmt.Sprintf(g.pick("scope_route",
			"SELECT id, (SELECT (SELECT p FROM `<-` AS p) AS s2 FROM dual) AS s1 FROM %s",
			"SELECT id, (SELECT (SELECT * FROM `<-` AS p) AS s2 FROM dual) AS s1 FROM %s",
			"SELECT id, (SELECT * FROM `<-` AS p) AS s FROM %s",
			"SELECT id, (SELECT p FROM `<-` AS p) AS s FROM %s",
			"SELECT id, (SELECT (SELECT `<-<-` AS d FROM dual) AS s2 FROM dual) AS s1 FROM %s",
			"SELECT id, (SELECT `<-` AS d FROM dual) AS s1 FROM %s",
			// ... and the rows {p: document} carried on by GROUP BY (under `*`, or as the grouping column itself)
			"SELECT id, (SELECT * FROM `<-` AS p GROUP BY p.id) AS s FROM %s",
			"SELECT id, (SELECT (SELECT `*` AS g FROM `<-` AS p GROUP BY p.id) AS s2 FROM dual) AS s FROM %s",
			"SELECT id, (SELECT p FROM `<-` AS p GROUP BY p) AS s FROM %s",
			// ... and a row-scoped subquery whose AWAIT defers the clean-up of a nested `*` row to the enclosing query
			"SELECT id, (SELECT AWAIT((SELECT * FROM dual)) AS x FROM `<-"+root+"u`) AS y FROM %s",
			"SELECT id, (SELECT * FROM `<-` GROUP BY id) AS s FROM %s",
			"SELECT id, (SELECT (SELECT * FROM `<-` GROUP BY id) AS s2 FROM dual) AS s FROM %s"), T)
		if !wrapped && rapid.IntRange(0, 5).Draw(t, "scope_dual_join") == 0 {
			// dual as a join side copies the scope into ordinary rows; a reshape selector over a CTE as the grouping key
			q = fmt.Sprintf("WITH c AS (SELECT id, a FROM %s) SELECT `{c}` AS p FROM %s GROUP BY `{c}`", T,
				g.pick("scope_dual_join_form", "dual JOIN "+T+" y ON dual.kk = y.id", "dual LEFT JOIN "+T+" y ON dual.kk = y.id", T+" y LEFT JOIN dual ON dual.kk = y.id"))
		} else if rapid.IntRange(0, 2).Draw(t, "scope_dual") == 0 {
			q = with + fmt.Sprintf("SELECT %s FROM dual", g.pick("scope_whole_row", "`mix=>` AS m", "`::` AS d", "`mix=>` AS m, `::` AS d"))
		}
	case "cte_dual_star":
		// `*` over dual is the enclosing document: a CTE evaluated on the way must not become a column later on
		q = fmt.Sprintf("WITH c AS (SELECT id, a FROM %s) SELECT *, (SELECT a FROM `<-c` WHERE id = 1) AS y FROM dual", T)
	case "grid":
		q = fmt.Sprintf("SELECT %s FROM %sgrid", g.items("", true), root)
	case "grid_cte":
		q = fmt.Sprintf("WITH c AS (SELECT %s FROM %sgrid) SELECT %s FROM c", g.items("", true), root, g.pick("grid_cte_sel", "*", "DISTINCT *"))
	case "grid_distinct":
		q = fmt.Sprintf("SELECT DISTINCT %s FROM %sgrid", g.pick("gdcols", "a", "s", "a, s", "f, (SELECT * FROM dual) AS me"), root)
	case "offset_window":
		q = fmt.Sprintf("SELECT id FROM %s LIMIT %d OFFSET %d", T, rapid.IntRange(0, 6).Draw(t, "lim"), rapid.IntRange(0, 6).Draw(t, "off"))
	case "dual":
		q = fmt.Sprintf("SELECT %d + 1 AS two, 'lit' AS l, (1, 2) AS tup, NULL AS nul, TRUE AS tr FROM dual", rapid.IntRange(0, 3).Draw(t, "dk"))
	case "union":
		q = fmt.Sprintf("SELECT id FROM %s UNION %s SELECT id FROM %s", T, g.pick("uall", "", "ALL"), U)
	case "slice":
		q = fmt.Sprintf("SELECT %s FROM `%s[%s]`", g.items("", true), T, g.pick("slice", "0:2", "1:3", "0", "begin:1"))
	case "alias":
		q = fmt.Sprintf("SELECT %s FROM %s AS r WHERE r.a >= %d", g.items("r.", true), T, rapid.IntRange(0, 3).Draw(t, "ak")*10)
	case "star":
		q = fmt.Sprintf("SELECT *, %s FROM %s", g.items("", true), T)
	case "nested_from":
		q = fmt.Sprintf("SELECT v, w FROM `%s.n`", T)
	case "in_subquery":
		// (a subquery with more than one column is no operand of IN: whatever the engine does with it, it does it every time)
		q = fmt.Sprintf("SELECT %s FROM %s WHERE id IN (%s)", g.items("", true), T, g.pick("in_sub_form", "SELECT v FROM n", "SELECT v FROM n", "SELECT v, w FROM n", "SELECT * FROM n", "SELECT id, b FROM `<-"+root+"u`"))
	}
	exp := c12Expect{Query: q, SeqFixed: seq, Sites: g.sites, Shape: shape}
	sim := drawSim(t, "")
	c := oneClientCase("C12", sim, doc, casefmt.Op{Doc: 0, Vars: 0, Query: q, Wrapped: wrapped,
		Constants: map[string]any{"unit": "ms", "conf": map[string]any{"on": true, "depth": 2.0}, "levels": []any{1.0, "two", nil}}})
	c.Vars = []map[string]any{{}}
	c.NativeInts = rapid.Bool().Draw(t, "native_ints")
	c.TypedTables = rapid.IntRange(0, 4).Draw(t, "typed_tables") == 0
	c.Stubs.Lat = drawLatencies(t, g.sites, 6)
	tags := []string{"shape:" + shape}
	if wrapped {
		tags = append(tags, "wrapped")
	}
	return &Bundle{Prop: "C12", Kind: shape, Case: c, Expect: mustJSON(exp), Tags: tags}
}

// c12Variants derives the other (map order, schedule, latency) configurations
// the same query is re-evaluated under.
func c12Variants(c *casefmt.Case, sites []int) []casefmt.Case {
	var out []casefmt.Case
	mk := func(strategy, mapPolicy string, seedMul uint64, lat func(i int, id int) []casefmt.LatRule) {
		v := *c
		v.Sim.Strategy, v.Sim.MapPolicy = strategy, mapPolicy
		v.Sim.Seed = c.Sim.Seed*seedMul + 13
		v.Sim.MapSeed = c.Sim.MapSeed*seedMul + 5
		v.Sim.WalkP = 0.5
		v.Sim.ChangePoints = nil
		if strategy == "pct" {
			v.Sim.ChangePoints = []int64{int64(c.Sim.Seed % 50), int64(60 + c.Sim.Seed%300)}
		}
		v.Stubs.Lat = nil
		for i, id := range sites {
			v.Stubs.Lat = append(v.Stubs.Lat, lat(i, id)...)
		}
		out = append(out, v)
	}
	mk("np", "sorted", 3, func(i, id int) []casefmt.LatRule { return nil })
	mk("walk", "reverse", 7, func(i, id int) []casefmt.LatRule {
		return []casefmt.LatRule{{ID: id, Call: 0, Ns: 60000000000}, {ID: id, Call: -1, Ns: 1000}}
	})
	mk("pct", "random", 11, func(i, id int) []casefmt.LatRule {
		return []casefmt.LatRule{{ID: id, Call: -1, Ns: int64(i+1) * 1000000}}
	})
	return out
}

func c12LeakClass(leaks []casefmt.Leak) string {
	var types []string
	for _, l := range leaks {
		ty := l.Type
		switch {
		case ty == "cycle":
			ty = "cycle"
		case ty == "nav-key":
			ty = "nav-key"
		case strings.HasPrefix(ty, "func"):
			ty = "func"
		}
		types = append(types, ty)
	}
	types = uniqSorted(types)
	return strings.Join(types, ",")
}

func evalC12(b *Bundle, r *Runner) []*Violation {
	var exp c12Expect
	if err := json.Unmarshal(b.Expect, &exp); err != nil {
		infra("C12: bad expectation: %v", err)
	}
	cases := append([]casefmt.Case{b.Case}, c12Variants(&b.Case, exp.Sites)...)
	// configuration 0 evaluates the query twice in one process: the repetition the statement talks about
	// includes one by the same caller, with whatever the first evaluation left in caches and pools
	{
		c0 := cases[0]
		op := c0.Clients[0].Ops[0]
		first := op
		first.ExecTwice = true // and the first Query is executed twice: rows already returned must not change
		c0.Clients = []casefmt.Client{{Name: "client0", Ops: []casefmt.Op{first, op}}}
		cases[0] = c0
	}
	var firstOp *casefmt.OpObs
	var firstObs *casefmt.Obs
	for ci := range cases {
		o := r.Run(&cases[ci], false)
		if hv := processHealth(b, o); len(hv) > 0 {
			// crashes and hangs are C10's findings
			r.Stats.probe("unhealthy_run_left_to_C10")
			return nil
		}
		op := &o.Ops[0]
		if ci == 0 {
			firstOp, firstObs = op, o
			if len(o.Ops) == 2 {
				again := &o.Ops[1]
				same := opOutcome(again) == opOutcome(op)
				if same && opOutcome(op) == "ok" && string(again.Rows) != string(op.Rows) {
					same = false
					if !exp.SeqFixed {
						x, ok1 := asArray(normJSON(op.Rows))
						y, ok2 := asArray(normJSON(again.Rows))
						same = ok1 && ok2 && multisetEqual(x, y)
					}
				}
				if !same {
					return []*Violation{mkViolation(b, "RESULT_NONDETERMINISTIC", "repeat_in_process shape:"+exp.Shape, fmt.Sprintf("%s\n first evaluation : %s %s%s %s\n second evaluation in the same process: %s %s%s %s", exp.Query,
						opOutcome(op), op.NewErr, op.ExecErr, compact(op.Rows), opOutcome(again), again.NewErr, again.ExecErr, compact(again.Rows)), o)}
				}
				if op.Exec2 != "" && opOutcome(op) == "ok" {
					same2 := op.Exec2 == "ok" && string(op.Rows2) == string(op.Rows)
					if !same2 && op.Exec2 == "ok" && !exp.SeqFixed {
						x, ok1 := asArray(normJSON(op.Rows))
						y, ok2 := asArray(normJSON(op.Rows2))
						same2 = ok1 && ok2 && multisetEqual(x, y)
					}
					if !same2 {
						return []*Violation{mkViolation(b, "RESULT_NONDETERMINISTIC", "second_exec shape:"+exp.Shape, fmt.Sprintf("%s\n first Exec : %s\n second Exec of the same Query: %s %s", exp.Query, compact(op.Rows), op.Exec2, compact(op.Rows2)), o)}
					}
					r.Stats.probe("second_exec_compared")
				}
				r.Stats.probe("repeated_in_one_process")
			}
		}
		if opOutcome(op) != opOutcome(firstOp) {
			return []*Violation{mkViolation(b, "OUTCOME_NONDETERMINISTIC", "shape:"+exp.Shape, fmt.Sprintf("%s\n configuration 0 (%s/%s): %s %s%s\n configuration %d (%s/%s): %s %s%s", exp.Query,
				cases[0].Sim.Strategy, cases[0].Sim.MapPolicy, opOutcome(firstOp), firstOp.NewErr, firstOp.ExecErr,
				ci, cases[ci].Sim.Strategy, cases[ci].Sim.MapPolicy, opOutcome(op), op.NewErr, op.ExecErr), o)}
		}
		if opOutcome(op) != "ok" {
			if ci == 0 {
				r.Stats.probe("query_failed_skipped")
			}
			continue
		}
		if len(op.Leaks) > 0 {
			return []*Violation{mkViolation(b, "NON_PLAIN_VALUE", c12LeakClass(op.Leaks), fmt.Sprintf("%s\n result holds non-plain values: %v\n rows: %s", exp.Query, op.Leaks, compact(op.Rows)), o)}
		}
		if op.JSONErr != "" {
			return []*Violation{mkViolation(b, "NOT_JSON_ENCODABLE", "", fmt.Sprintf("%s\n encoding/json refused the result: %s\n rows: %s", exp.Query, op.JSONErr, compact(op.Rows)), o)}
		}
		if string(op.Rows) != string(op.RowsAfter) {
			return []*Violation{mkViolation(b, "RESULT_CHANGED_AFTER_RETURN", "", fmt.Sprintf("%s\n at return   %s\n after drain %s", exp.Query, compact(op.Rows), compact(op.RowsAfter)), o)}
		}
		if ci == 0 {
			continue
		}
		same := string(op.Rows) == string(firstOp.Rows)
		if !same && !exp.SeqFixed {
			x, ok1 := asArray(normJSON(op.Rows))
			y, ok2 := asArray(normJSON(firstOp.Rows))
			same = ok1 && ok2 && multisetEqual(x, y)
		}
		if !same {
			cls := "RESULT_NONDETERMINISTIC"
			return []*Violation{mkViolation(b, cls, "shape:"+exp.Shape, fmt.Sprintf("%s\n configuration 0 (%s/%s): %s\n configuration %d (%s/%s): %s", exp.Query,
				cases[0].Sim.Strategy, cases[0].Sim.MapPolicy, compact(firstOp.Rows), ci, cases[ci].Sim.Strategy, cases[ci].Sim.MapPolicy, compact(op.Rows)), firstObs)}
		}
	}
	if opOutcome(firstOp) == "ok" {
		r.Stats.probe("successful_queries_compared")
		r.Stats.probe("ok_shape_" + exp.Shape)
		if len(exp.Sites) > 0 {
			r.Stats.probe("with_async_sites")
		}
	}
	return nil
}

func corpusC12() []*Bundle {
	doc := map[string]any{
		"t": []any{
			map[string]any{"id": 1.0, "a": 10.0, "s": "x", "f": true, "z": nil, "n": []any{map[string]any{"v": 1.0, "w": "p"}, map[string]any{"v": 3.0, "w": "q"}}, "o": map[string]any{"p": 1.0, "q": "k"}},
			map[string]any{"id": 2.0, "a": 20.0, "s": "xy", "f": false, "z": 1.0, "n": []any{}, "o": map[string]any{"p": 2.0, "q": "m"}},
			map[string]any{"id": 3.0, "a": 10.0, "s": "z", "f": true, "z": 2.0, "n": []any{map[string]any{"v": 0.0, "w": "p"}}, "o": map[string]any{"p": 3.0, "q": "k"}},
		},
		"u":    []any{map[string]any{"id": 1.0, "b": "k"}, map[string]any{"id": 3.0, "b": "m"}, map[string]any{"id": 3.0, "b": "k"}},
		"meta": map[string]any{"ip": "10.0.0.1"},
	}
	type qc struct {
		q     string
		seq   bool
		sites []int
	}
	qs := []qc{
		{"SELECT (1, 2) AS tup, ('a', a) AS t2 FROM t", true, nil},
		{"SELECT * FROM dual", true, nil},
		{"WITH c AS (SELECT id FROM t) SELECT * FROM dual", true, nil},
		{"WITH c AS (SELECT id FROM t) SELECT * FROM c", true, nil},
		{"SELECT id, ASYNC.fx(1, a) AS y FROM t", true, []int{1}},
		{"SELECT d.y AS y FROM (SELECT ASYNC.fx(1, a) AS y FROM t) d", true, []int{1}},
		{"SELECT id, (SELECT v, ASYNC.fx(1, v) AS av FROM n) AS sub FROM t", true, []int{1}},
		{"SELECT id, (SELECT w, (SELECT ASYNC.fx(1, 5) AS deep FROM dual) AS inner2 FROM n) AS sub FROM t", true, []int{1}},
		{"SELECT id, FUSE(o) FROM t", true, nil},
		{"SELECT id, (SELECT ip FROM `<-meta`) AS m FROM t", true, nil},
		{"SELECT id FROM t WHERE EXISTS (SELECT v FROM n WHERE v >= 1)", true, nil},
		{"SELECT s, COUNT(*) AS c FROM t GROUP BY s", false, nil},
		{"SELECT * FROM t x PARALLEL JOIN u y ON x.id = y.id", false, nil},
		{"SELECT id, a FROM t ORDER BY a DESC", true, nil},
		{"SELECT DISTINCT a FROM t", true, nil},
		{"SELECT id, NULL AS nul, TRUE AS tr, 'l' AS lit, 1.5 AS fl FROM t", true, nil},
		{"SELECT id, IF(f, a, s) AS x, ARRAY(a, s) AS arr FROM t", true, nil},
	}
	var out []*Bundle
	for _, x := range qs {
		c := oneClientCase("C12", casefmt.SimConfig{Strategy: "walk", Seed: 9, WalkP: 0.5, MapPolicy: "rotate", MapSeed: 4}, doc, casefmt.Op{Doc: 0, Vars: -1, Query: x.q})
		for _, s := range x.sites {
			c.Stubs.Lat = append(c.Stubs.Lat, casefmt.LatRule{ID: s, Call: -1, Ns: 1000000})
		}
		out = append(out, &Bundle{Prop: "C12", Kind: "corpus", Case: c, Expect: mustJSON(c12Expect{Query: x.q, SeqFixed: x.seq, Sites: x.sites, Shape: "corpus"}), Tags: []string{"corpus"}})
	}
	sort.SliceStable(out, func(i, j int) bool { return false })
	return out
}

func init() {
	register(&Property{
		ID: "C12", Plain: true, Level: "exploration",
		Rule:   "cases = rapid-generated (document of 0-5 rows with nested arrays/objects/NULLs) x query drawn from a grammar over every expression form the engine evaluates (literals, tuples, arithmetic, comparison, AND/OR/NOT, IS, BETWEEN, IN/NOT IN, LIKE, SUBSTR, CASE, built-in functions incl. ARRAY/IF/FUSE/FIRST/LAST/ELEMENTAT/CHANGETYPE, row-scoped subqueries, EXISTS, `<-` back-references, ASYNC/ONCE stub calls directly in the select list and inside subqueries, aggregates) in 23 statement shapes (plain, WHERE, ORDER BY total/ties, LIMIT/OFFSET, DISTINCT, GROUP BY/HAVING, whole-table aggregates, joins incl. PARALLEL, derived tables, CTEs un-Wrapped and Wrapped, direct CTE selection, dual, UNION, slices, aliases, `*`) plus a fixed corpus; each query is executed under 4 different (map order, goroutine schedule, stub latency) configurations; every successful result is type-walked in the child and the 4 outcomes/results are compared (sequence when determined, else multiset); non-trivial = >=2 tasks runnable at some yield or a non-identity map order applied; distinct = distinct case-file hash; select items also include aliased FUSE (prefixed keys), REPORT/REPORT_WHEN (omit marker), CONSTANT over a caller-supplied constants map holding objects/arrays/NULL and SCOPED-qualified calls; AWAIT over nested selects, markers nested in other expressions, FUSE of rows with pending slots, derived tables on join sides, `*` over dual next to a CTE, reshape selectors over the scope, DEFAULTKEY, array-of-arrays sources, joins on nullable columns, and the shapes of the open known findings (LIMIT over a join, non-finite numbers, ASYNC calls as arguments); IN over multi-column subqueries, mix=> over objects whose flattened keys collide, the enclosing document reached by a dozen routes other than the column `<-` (two steps, aliased or unaliased FROM `<-` with and without GROUP BY, whole-row selectors over dual, AWAIT over a nested * select in a row-scoped subquery, a reshape selector over a CTE as grouping key of a join with dual), FUSE over AWAIT",
		Corpus: corpusC12, Gen: genC12, Eval: evalC12, QuickChecks: 500,
		Assumptions: []string{
			"'every expression form in every clause position' is an input-space quantifier: sampled by the grammar, not covered; the simulator decides the repeat-under-different-nondeterminism clause and the unresolved-async-slot clause",
			"queries that fail are skipped (the statement is about successful results) but must fail under every configuration",
			"runs that crash or hang are left to C10",
		},
		Components: map[string][]string{
			"real": {"genql (instrumented copy of /repo working tree)", "sqlparser", "compare", "Go runtime", "encoding/json"},
			"stub": {"user functions fx/fid", "goroutine scheduler (zzsim)", "clock (zzsim)", "map iteration order (zzsim)"},
		},
	})
}
