package main

import (
	"bytes"
	"context"
	"encoding/json"
	"fmt"
	"os"
	"os/exec"
	"path/filepath"
	"regexp"
	"sort"
	"strings"
	"sync/atomic"
	"time"

	"verif/casefmt"
)

// Runner executes case files in fresh child processes (one OS process per
// simulated run) and keeps the counters that go into the evidence file.
type Runner struct {
	Plain   string // harness binary built without -race
	Race    string // harness binary built with -race
	TmpDir  string
	ModRoot string // scratch copy root, to relativise file names in race reports
	Stats   *Stats
	seq     int64
	// Determinism: run every case three times (GOMAXPROCS 1/4/16) and compare
	Determinism bool
	DetCompared int64
}

type InfraError struct{ Msg string }

func (e *InfraError) Error() string { return e.Msg }

func infra(format string, a ...any) {
	panic(&InfraError{fmt.Sprintf(format, a...)})
}

// Run executes one case. It panics with *InfraError when the simulator lost
// control (watchdog, unparsable output): such conditions are exit 2, never a
// violation.
func (r *Runner) Run(c *casefmt.Case, race bool) *casefmt.Obs {
	if !r.Determinism {
		return r.run1(c, race, envOr("VERIF_CHILD_GOMAXPROCS", "2"))
	}
	// determinism self-test: the same case in three fresh processes under
	// different GOMAXPROCS must give the same decision trace, event log and
	// observation
	first := r.run1(c, race, "1")
	want := normObs(first)
	for _, procs := range []string{"4", "16"} {
		o := r.run1(c, race, procs)
		if got := normObs(o); got != want {
			dump := filepath.Join(r.TmpDir, fmt.Sprintf("nondeterminism-%d.txt", os.Getpid()))
			cb, _ := json.Marshal(c)
			os.WriteFile(dump, []byte("CASE\n"+string(cb)+"\nGOMAXPROCS=1\n"+want+"\nGOMAXPROCS="+procs+"\n"+got+"\n"), 0o644)
			if keep := os.Getenv("VERIF_KEEP_DIR"); keep != "" {
				os.MkdirAll(keep, 0o755)
				os.WriteFile(filepath.Join(keep, filepath.Base(dump)), []byte("CASE\n"+string(cb)+"\nGOMAXPROCS=1\n"+want+"\nGOMAXPROCS="+procs+"\n"+got+"\n"), 0o644)
			}
			infra("determinism self-test failed: the same case gave different observations under GOMAXPROCS=1 and %s (dump: %s): %s", procs, dump, firstDiff(want, got))
		}
		atomic.AddInt64(&r.DetCompared, 1)
	}
	return first
}

var reAddr = regexp.MustCompile(`0x[0-9a-f]{6,}`)

// normObs renders an observation without wall-clock time and addresses.
func normObs(o *casefmt.Obs) string {
	c := *o
	c.WallMs = 0
	c.Stderr = ""
	c.RaceTexts = nil
	// the simulated execution (schedule, events, results) is what must repeat; *which* of several racing pairs
	// ThreadSanitizer's bounded history still reports depends on how goroutines were mapped to OS threads
	// (and whether it reports at all: its shadow memory keeps four accesses per word and evicts at random)
	c.Races = nil
	if c.ExitCode == 66 {
		c.ExitCode = 0
	}
	b, _ := json.Marshal(&c)
	return reAddr.ReplaceAllString(string(b), "0xADDR")
}

func firstDiff(a, b string) string {
	n := len(a)
	if len(b) < n {
		n = len(b)
	}
	i := 0
	for i < n && a[i] == b[i] {
		i++
	}
	lo := i - 80
	if lo < 0 {
		lo = 0
	}
	hiA, hiB := i+120, i+120
	if hiA > len(a) {
		hiA = len(a)
	}
	if hiB > len(b) {
		hiB = len(b)
	}
	return fmt.Sprintf("at byte %d: %q vs %q", i, a[lo:hiA], b[lo:hiB])
}

func (r *Runner) run1(c *casefmt.Case, race bool, gomaxprocs string) *casefmt.Obs {
	bin := r.Plain
	if race {
		bin = r.Race
	}
	if bin == "" {
		infra("no harness binary for race=%v", race)
	}
	if c.Sim.TraceLimit == 0 {
		c.Sim.TraceLimit = 64
	}
	b, err := json.Marshal(c)
	if err != nil {
		infra("cannot encode case: %v", err)
	}
	n := atomic.AddInt64(&r.seq, 1)
	path := filepath.Join(r.TmpDir, fmt.Sprintf("case-%d-%d.json", os.Getpid(), n))
	if err := os.WriteFile(path, b, 0o644); err != nil {
		infra("cannot write case file: %v", err)
	}
	defer os.Remove(path)
	ctx, cancel := context.WithTimeout(context.Background(), 120*time.Second)
	defer cancel()
	cmd := exec.CommandContext(ctx, bin, path)
	cmd.Env = append(os.Environ(), "GORACE=halt_on_error=0 atexit_sleep_ms=0 history_size=2", "GOMAXPROCS="+gomaxprocs, "GOTRACEBACK=single")
	var stdout, stderr bytes.Buffer
	cmd.Stdout = &stdout
	cmd.Stderr = &stderr
	start := time.Now()
	runErr := cmd.Run()
	wall := time.Since(start)
	obs := &casefmt.Obs{}
	obs.WallMs = float64(wall.Microseconds()) / 1000
	exit := 0
	if runErr != nil {
		if ee, ok := runErr.(*exec.ExitError); ok {
			exit = ee.ExitCode()
		} else {
			infra("cannot run harness %s: %v", bin, runErr)
		}
	}
	if ctx.Err() != nil {
		infra("harness exceeded the driver's wall-clock limit (case %s)", string(b))
	}
	errText := stderr.String()
	if exit == 3 || strings.Contains(errText, "HARNESS-WATCHDOG") {
		infra("harness watchdog fired: simulator lost control (case %s)", string(b))
	}
	if exit == 2 && strings.Contains(errText, "harness:") {
		infra("harness rejected the case: %s", firstLines(errText, 3))
	}
	out := bytes.TrimSpace(stdout.Bytes())
	parsed := false
	if len(out) > 0 {
		if err := json.Unmarshal(out, obs); err == nil {
			parsed = true
		}
	}
	obs.ExitCode = exit
	if !parsed {
		// the child died before it could report: fatal runtime error
		obs.Fatal = classifyFatal(errText, exit)
		obs.Stderr = tail(errText, 4000)
	}
	if race {
		sigs, texts := parseRaces(errText, r.ModRoot)
		obs.Races = sigs
		obs.RaceTexts = texts
	}
	obs.WallMs = float64(wall.Microseconds()) / 1000
	if r.Stats != nil {
		r.Stats.noteRun(c, obs, race)
	}
	return obs
}

func envOr(k, d string) string {
	if v := os.Getenv(k); v != "" {
		return v
	}
	return d
}

func firstLines(s string, n int) string {
	ls := strings.Split(s, "\n")
	if len(ls) > n {
		ls = ls[:n]
	}
	return strings.Join(ls, " | ")
}

func tail(s string, n int) string {
	if len(s) > n {
		return "..." + s[len(s)-n:]
	}
	return s
}

func classifyFatal(stderr string, exit int) string {
	switch {
	case strings.Contains(stderr, "stack overflow") || strings.Contains(stderr, "goroutine stack exceeds"):
		return "FATAL stack overflow"
	case strings.Contains(stderr, "concurrent map"):
		return "FATAL " + grepLine(stderr, "concurrent map")
	case strings.Contains(stderr, "fatal error:"):
		return "FATAL " + grepLine(stderr, "fatal error:")
	case strings.Contains(stderr, "panic:"):
		return "FATAL unrecovered " + grepLine(stderr, "panic:")
	default:
		return fmt.Sprintf("FATAL child exited with status %d and no observation: %s", exit, firstLines(stderr, 2))
	}
}

func grepLine(s, sub string) string {
	for _, l := range strings.Split(s, "\n") {
		if strings.Contains(l, sub) {
			return strings.TrimSpace(l)
		}
	}
	return sub
}

// ---------------------------------------------------------------- race reports

var (
	reAccess = regexp.MustCompile(`^(Previous )?(\w+(?: \w+)*?) at 0x[0-9a-f]+ by (main goroutine|goroutine \d+):$`)
	reFrame  = regexp.MustCompile(`^\s+(\S+)\(.*\)$`)
	reLoc    = regexp.MustCompile(`^\s+(\S+):(\d+) \+0x[0-9a-f]+$`)
)

type raceAccess struct {
	kind   string
	frames []raceFrame
}
type raceFrame struct {
	fn   string
	file string
	line string
}

// parseRaces reduces each ThreadSanitizer report to a signature built from the
// top library frame (not simulator, not harness, not runtime) of each of the
// two accesses. Reports with no library frame on either side are harness
// artefacts and are dropped.
func parseRaces(stderr, modRoot string) (sigs []string, texts []string) {
	blocks := strings.Split(stderr, "==================")
	seen := map[string]bool{}
	for _, blk := range blocks {
		if !strings.Contains(blk, "WARNING: DATA RACE") {
			continue
		}
		lines := strings.Split(blk, "\n")
		var accs []raceAccess
		var cur *raceAccess
		for i := 0; i < len(lines); i++ {
			l := lines[i]
			if m := reAccess.FindStringSubmatch(l); m != nil {
				accs = append(accs, raceAccess{kind: strings.ToLower(strings.TrimPrefix(m[2], "Previous "))})
				cur = &accs[len(accs)-1]
				continue
			}
			if strings.HasPrefix(l, "Goroutine ") || strings.HasPrefix(l, "Found ") {
				cur = nil
				continue
			}
			if cur == nil {
				continue
			}
			if m := reFrame.FindStringSubmatch(l); m != nil && i+1 < len(lines) {
				if lm := reLoc.FindStringSubmatch(lines[i+1]); lm != nil {
					file := lm[1]
					if modRoot != "" {
						file = strings.TrimPrefix(file, modRoot+"/")
					}
					cur.frames = append(cur.frames, raceFrame{fn: m[1], file: file, line: lm[2]})
					i++
				}
			}
		}
		if len(accs) < 2 {
			continue
		}
		var parts []string
		lib := 0
		for _, a := range accs[:2] {
			f := topLibFrame(a.frames)
			if f == nil {
				parts = append(parts, a.kind+" <no-library-frame> -")
				continue
			}
			lib++
			parts = append(parts, fmt.Sprintf("%s %s %s:%s", a.kind, shortFn(f.fn), f.file, f.line))
		}
		if lib == 0 {
			continue
		}
		sort.Strings(parts)
		sig := "RACE " + strings.Join(parts, " <-> ")
		if !seen[sig] {
			seen[sig] = true
			sigs = append(sigs, sig)
			texts = append(texts, strings.TrimSpace(blk))
		}
	}
	return
}

func isLibFrame(f raceFrame) bool {
	if strings.Contains(f.fn, "/zzsim.") || strings.Contains(f.fn, "/zzharness") || strings.HasPrefix(f.fn, "main.") {
		return false
	}
	if strings.HasPrefix(f.file, "/") && !strings.Contains(f.fn, "genql") {
		return false // runtime / std / third-party
	}
	return strings.Contains(f.fn, "genql")
}

func topLibFrame(fs []raceFrame) *raceFrame {
	for i := range fs {
		if isLibFrame(fs[i]) {
			return &fs[i]
		}
	}
	return nil
}

func shortFn(fn string) string {
	if i := strings.LastIndex(fn, "/"); i >= 0 {
		fn = fn[i+1:]
	}
	return fn
}

// raceFuncSig strips file:line from a race signature (for known-finding
// matching that survives unrelated edits).
func raceFuncSig(sig string) string {
	sig = strings.TrimPrefix(sig, "RACE ")
	parts := strings.Split(sig, " <-> ")
	for i, p := range parts {
		f := strings.Fields(p)
		if len(f) >= 2 {
			parts[i] = strings.Join(f[:len(f)-1], " ")
		}
	}
	return "RACE " + strings.Join(parts, " <-> ")
}
