package main

import (
	"encoding/json"
	"fmt"
	"math"
	"sort"
	"strings"

	"pgregory.net/rapid"

	"verif/casefmt"
)

// C04 — joins return the textbook multiset for every join type, strategy and
// goroutine schedule.
//
// One bundle is one logical join (two tables, an ON tree, a join type). It is
// executed once per strategy spelling the grammar offers for that join type;
// the PARALLEL spellings run in the -race child under the drawn schedule plus
// two derived schedules. Every execution must equal the textbook nested-loop
// join computed here, as a multiset.

type c04Cmp struct {
	L     string `json:"l"`              // left-table column
	R     string `json:"r"`              // right-table column
	Op    string `json:"op"`             // = != < <= > >=
	Flip  bool   `json:"flip,omitempty"` // written as  y.R <op'> x.L
	IsStr bool   `json:"str,omitempty"`
}

// c04Node is an ON tree: a leaf comparison or AND/OR of two subtrees.
type c04Node struct {
	Conn  string   `json:"conn,omitempty"` // "AND" | "OR" | "" (leaf)
	Leaf  *c04Cmp  `json:"leaf,omitempty"`
	Left  *c04Node `json:"left,omitempty"`
	Right *c04Node `json:"right,omitempty"`
}

type c04Expect struct {
	Type  string   `json:"type"` // inner | left | right
	On    *c04Node `json:"on"`
	OnSQL string   `json:"on_sql"`
	Rows  []any    `json:"rows"`
	Equi  bool     `json:"equi"` // ON is a conjunction of equalities
	// Prelude: a join issued earlier by the same caller in the same process (it may
	// fail half-way through building its catalog); it must not influence the join under test
	Prelude string `json:"prelude,omitempty"`
	// Using: the equi-conjunction is written  USING (c1, c2, ...)  instead of ON (both tables name the columns alike)
	Using string `json:"using,omitempty"`
	// Derived: "", "left", "right" or "both" - that side is written as an aliased derived table (SELECT * FROM t) x
	Derived string `json:"derived,omitempty"`
}

var c04Preludes = []string{
	"SELECT * FROM p x JOIN p y ON x.id = y.id AND x.`o.q` = y.`o.q`",
	"SELECT * FROM p x LEFT JOIN p y ON x.`o.q` = y.id",
	"SELECT * FROM p x PARALLEL JOIN p y ON x.id = y.id AND x.`o.q` = y.`o.q`",
	"SELECT * FROM p x PARALLEL JOIN p y ON x.id",
	"SELECT * FROM p x HASH_JOIN p y ON x.id = y.id",
	"SELECT * FROM p x JOIN p y ON x.id < y.id OR x.`o.q` = y.`o.q`",
}

var c04Spellings = map[string][]string{
	"inner": {"JOIN", "INNER JOIN", "HASH_JOIN", "INNER HASH_JOIN", "STRAIGHT_JOIN",
		"PARALLEL JOIN", "PARALLEL INNER JOIN", "PARALLEL HASH_JOIN", "PARALLEL INNER HASH_JOIN", "PARALLEL STRAIGHT_JOIN"},
	"left": {"LEFT JOIN", "LEFT OUTER JOIN", "LEFT HASH_JOIN", "LEFT OUTER HASH_JOIN",
		"PARALLEL LEFT JOIN", "PARALLEL LEFT OUTER JOIN", "PARALLEL LEFT HASH_JOIN", "PARALLEL LEFT OUTER HASH_JOIN"},
	"right": {"RIGHT JOIN", "RIGHT OUTER JOIN", "RIGHT HASH_JOIN", "RIGHT OUTER HASH_JOIN",
		"PARALLEL RIGHT JOIN", "PARALLEL RIGHT OUTER JOIN", "PARALLEL RIGHT HASH_JOIN", "PARALLEL RIGHT OUTER HASH_JOIN"},
}

func flipOp(op string) string {
	switch op {
	case "<":
		return ">"
	case "<=":
		return ">="
	case ">":
		return "<"
	case ">=":
		return "<="
	}
	return op
}

// c04Col writes a column reference; a name that is no plain word is given as a quoted (literal) key
func c04Col(alias, name string) string {
	if i := strings.Index(name, "."); i > 0 {
		// a path into a nested object: x.`o.n`; a key inside it that is no plain word is quoted there: x.`h.'x-id'`
		inner := name[i+1:]
		for _, r := range inner {
			if !(r == '_' || r >= '0' && r <= '9' || r >= 'a' && r <= 'z' || r >= 'A' && r <= 'Z') {
				inner = "'" + inner + "'"
				break
			}
		}
		return fmt.Sprintf("%s.`%s.%s`", alias, name[:i], inner)
	}
	for _, r := range name {
		if !(r == '_' || r >= '0' && r <= '9' || r >= 'a' && r <= 'z' || r >= 'A' && r <= 'Z') {
			return fmt.Sprintf("%s.`'%s'`", alias, name)
		}
	}
	return alias + "." + name
}

func (n *c04Node) sql() string {
	if n.Leaf != nil {
		c := n.Leaf
		if c.Flip {
			return fmt.Sprintf("%s %s %s", c04Col("y", c.R), flipOp(c.Op), c04Col("x", c.L))
		}
		return fmt.Sprintf("%s %s %s", c04Col("x", c.L), c.Op, c04Col("y", c.R))
	}
	return fmt.Sprintf("(%s %s %s)", n.Left.sql(), n.Conn, n.Right.sql())
}

func (n *c04Node) equi() bool {
	if n.Leaf != nil {
		return n.Leaf.Op == "="
	}
	return n.Conn == "AND" && n.Left.equi() && n.Right.equi()
}

func cmpScalars(a, b any) int {
	switch x := a.(type) {
	case float64:
		y := b.(float64)
		switch {
		case x < y:
			return -1
		case x > y:
			return 1
		}
		return 0
	case string:
		return strings.Compare(x, b.(string))
	}
	panic("c04: unexpected scalar kind")
}

// c04Get reads a key column: "o.n" is the n of the row's nested object o
func c04Get(row map[string]any, col string) any {
	if i := strings.Index(col, "."); i > 0 {
		o, _ := row[col[:i]].(map[string]any)
		return o[col[i+1:]]
	}
	return row[col]
}

func (n *c04Node) eval(l, r map[string]any) bool {
	if n.Leaf != nil {
		c := cmpScalars(c04Get(l, n.Leaf.L), c04Get(r, n.Leaf.R))
		switch n.Leaf.Op {
		case "=":
			return c == 0
		case "!=":
			return c != 0
		case "<":
			return c < 0
		case "<=":
			return c <= 0
		case ">":
			return c > 0
		case ">=":
			return c >= 0
		}
		panic("c04: bad operator")
	}
	if n.Conn == "AND" {
		return n.Left.eval(l, r) && n.Right.eval(l, r)
	}
	return n.Left.eval(l, r) || n.Right.eval(l, r)
}

// textbookJoin is the reference: nested loop over all pairs.
func textbookJoin(typ string, on *c04Node, left, right []any) []any {
	out := []any{}
	rightMatched := make([]bool, len(right))
	for _, l := range left {
		lm := l.(map[string]any)
		matched := false
		for ri, r := range right {
			rm := r.(map[string]any)
			if on.eval(lm, rm) {
				matched = true
				rightMatched[ri] = true
				out = append(out, map[string]any{"x": lm, "y": rm})
			}
		}
		if !matched && typ == "left" {
			out = append(out, map[string]any{"x": lm, "y": nil})
		}
	}
	if typ == "right" {
		for ri, r := range right {
			if !rightMatched[ri] {
				out = append(out, map[string]any{"x": nil, "y": r})
			}
		}
	}
	return out
}

func drawOnTree(t *rapid.T, pairs []c04Cmp, depth int) *c04Node {
	if depth >= 2 || rapid.IntRange(0, 9).Draw(t, "on_leaf") < 4+3*depth {
		p := rapid.SampledFrom(pairs).Draw(t, "pair")
		ops := []string{"=", "=", "=", "!=", "<", "<=", ">", ">="}
		p.Op = rapid.SampledFrom(ops).Draw(t, "op")
		p.Flip = rapid.Bool().Draw(t, "flip")
		return &c04Node{Leaf: &p}
	}
	conn := rapid.SampledFrom([]string{"AND", "AND", "OR"}).Draw(t, "conn")
	return &c04Node{Conn: conn, Left: drawOnTree(t, pairs, depth+1), Right: drawOnTree(t, pairs, depth+1)}
}

func genC04(t *rapid.T) *Bundle {
	// schema: 1-3 column pairs; names chosen so that per-side name order
	// differs from pair order
	npairs := rapid.IntRange(1, 3).Draw(t, "npairs")
	// (names that are no plain words - "k-1", "user id" - are written as quoted keys)
	// names with upper-case letters, and paths into a nested object (o.n is the n of the row's o)
	lnames := rapid.Permutation([]string{"a", "z", "m", "k", "k-1", "UserId", "o.n", "h.x-id"}).Draw(t, "lnames")[:npairs]
	rnames := rapid.Permutation([]string{"m", "b", "a", "c", "user id", "UserId", "p.q", "meta.user-id"}).Draw(t, "rnames")[:npairs]
	using := rapid.IntRange(0, 7).Draw(t, "using") == 0
	if using {
		// USING takes plain identifiers
		for i, nm := range lnames {
			if strings.ContainsAny(nm, "- .") {
				lnames[i] = fmt.Sprintf("Wide%d", i)
			}
		}
		rnames = append([]string{}, lnames...)
	}
	tricky := rapid.IntRange(0, 6).Draw(t, "tricky") == 0
	bigNums := rapid.IntRange(0, 5).Draw(t, "big_nums") == 0
	// fractions and the negative zero: with Go ints on one side the comparison crosses numeric types
	fractions := rapid.IntRange(0, 4).Draw(t, "fractions") == 0
	var pairs []c04Cmp
	for i := 0; i < npairs; i++ {
		pairs = append(pairs, c04Cmp{L: lnames[i], R: rnames[i], IsStr: rapid.Bool().Draw(t, "is_str")})
	}
	strDom := []string{"p", "q", "r"}
	if tricky {
		strDom = []string{"p", "p-", "-p", "-"}
	}
	drawRows := func(side string, names []string, n int) []any {
		rows := []any{}
		for i := 0; i < n; i++ {
			row := map[string]any{"id": float64(rapid.IntRange(1, 3).Draw(t, side+"id"))}
			for pi, nm := range names {
				if pairs[pi].IsStr {
					row[nm] = rapid.SampledFrom(strDom).Draw(t, side+"s")
				} else if bigNums {
					row[nm] = float64(rapid.SampledFrom([]int{1, 2, 1000000, 2000000, 12345678}).Draw(t, side+"n"))
				} else if fractions {
					row[nm] = rapid.SampledFrom([]float64{1, 2, 1.5, 2.5, 0, math.Copysign(0, -1)}).Draw(t, side+"f")
				} else {
					row[nm] = float64(rapid.IntRange(1, 3).Draw(t, side+"n"))
				}
			}
			rows = append(rows, row)
		}
		return rows
	}
	left := drawRows("l", lnames, rapid.IntRange(0, 6).Draw(t, "nleft"))
	right := drawRows("r", rnames, rapid.IntRange(0, 6).Draw(t, "nright"))
	// now and then a table with many distinct keys: worker pools, batching and chunked hand-over of keys only
	// show with more keys than a batch holds
	big := rapid.IntRange(0, 24).Draw(t, "big_table") == 0
	if big {
		n := rapid.IntRange(66, 140).Draw(t, "big_n")
		if rapid.IntRange(0, 2).Draw(t, "huge") == 0 {
			// beyond the batch sizes a bounded pool is likely to be given (128, 256): a second batch starts
			n = rapid.IntRange(258, 330).Draw(t, "huge_n")
		}
		side, names := "l", lnames
		if rapid.Bool().Draw(t, "big_right") {
			side, names = "r", rnames
		}
		rows := []any{}
		for i := 0; i < n; i++ {
			row := map[string]any{"id": float64(i%3 + 1)}
			for pi, nm := range names {
				switch {
				case pi == 0 && pairs[pi].IsStr:
					row[nm] = fmt.Sprintf("k%03d", i)
				case pi == 0:
					row[nm] = float64(i + 1)
				case pairs[pi].IsStr:
					row[nm] = strDom[i%len(strDom)]
				default:
					row[nm] = float64(i%3 + 1)
				}
			}
			rows = append(rows, row)
		}
		// make sure some keys have partners on the other side
		if side == "l" {
			left = rows
		} else {
			right = rows
		}
		other := right
		oname := rnames[0]
		if side == "r" {
			other, oname = left, lnames[0]
		}
		for i, r := range other {
			if pairs[0].IsStr {
				r.(map[string]any)[oname] = fmt.Sprintf("k%03d", (i*17)%n)
			} else {
				r.(map[string]any)[oname] = float64((i*17)%n + 1)
			}
		}
	}
	// keys named by a path live in a nested object
	for _, rows := range [][]any{left, right} {
		for _, r := range rows {
			row := r.(map[string]any)
			for k, v := range row {
				if i := strings.Index(k, "."); i > 0 {
					delete(row, k)
					o, _ := row[k[:i]].(map[string]any)
					if o == nil {
						o = map[string]any{}
						row[k[:i]] = o
					}
					o[k[i+1:]] = v
				}
			}
		}
	}
	on := drawOnTree(t, pairs, 0)
	usingCols := ""
	if using {
		// USING (c1, ..): the conjunction of c = c over a permutation of a non-empty subset of the pairs
		sel := rapid.Permutation(pairs).Draw(t, "using_cols")[:rapid.IntRange(1, npairs).Draw(t, "using_n")]
		var names []string
		on = nil
		for i := range sel {
			leaf := &c04Node{Leaf: &c04Cmp{L: sel[i].L, R: sel[i].R, Op: "=", IsStr: sel[i].IsStr}}
			names = append(names, sel[i].L)
			if on == nil {
				on = leaf
			} else {
				on = &c04Node{Conn: "AND", Left: on, Right: leaf}
			}
		}
		usingCols = strings.Join(names, ", ")
	}
	typ := rapid.SampledFrom([]string{"inner", "left", "right"}).Draw(t, "join_type")
	exp := c04Expect{Type: typ, On: on, OnSQL: on.sql(), Equi: on.equi(), Using: usingCols}
	if !big && rapid.IntRange(0, 5).Draw(t, "derived_side") == 0 {
		exp.Derived = rapid.SampledFrom([]string{"left", "right", "both", "both"}).Draw(t, "derived_which")
	}
	exp.Rows = textbookJoin(typ, on, left, right)
	doc := map[string]any{"t": left, "u": right, "p": []any{
		map[string]any{"id": float64(1), "o": map[string]any{"q": float64(1)}},
		map[string]any{"id": float64(2), "o": "scalar"},
		map[string]any{"id": float64(3), "o": map[string]any{"q": float64(3)}},
	}}
	if rapid.IntRange(0, 2).Draw(t, "with_prelude") == 0 {
		exp.Prelude = rapid.SampledFrom(c04Preludes).Draw(t, "prelude")
	}
	sim := drawSim(t, "")
	c := oneClientCase("C04", sim, doc, casefmt.Op{Doc: 0, Vars: -1, Query: ""})
	// the two tables may come from different sources: one holding Go ints, the other float64
	switch rapid.IntRange(0, 3).Draw(t, "native_ints") {
	case 0:
		c.NativeInts = true
	case 1:
		c.NativeIntKeys = []string{"t"}
	case 2:
		c.NativeIntKeys = []string{"u"}
	}
	tags := []string{"type:" + typ}
	if exp.Equi {
		tags = append(tags, "equi")
	}
	if tricky {
		tags = append(tags, "tricky_strings")
	}
	if using {
		tags = append(tags, "using")
	}
	if fractions {
		tags = append(tags, "fractions")
	}
	if big {
		tags = append(tags, "big_table")
	}
	return &Bundle{Prop: "C04", Kind: typ, Case: c, Expect: mustJSON(exp), Tags: tags}
}

// c04Sims returns the schedules a PARALLEL spelling is run under: the drawn
// one plus two derived ones (different strategy / seed), so that every logical
// join meets several interleavings and map orders.
func c04Sims(base casefmt.SimConfig) []casefmt.SimConfig {
	a := base
	b := base
	b.Strategy, b.WalkP, b.Seed, b.ChangePoints = "walk", 0.5, base.Seed*31+7, nil
	b.MapPolicy, b.MapSeed = "random", base.MapSeed*17+3
	c := base
	c.Strategy, c.Seed = "pct", base.Seed*131+11
	c.ChangePoints = []int64{int64(base.Seed % 40), int64(40 + base.Seed%400)}
	c.MapPolicy = "reverse"
	d := base
	d.Strategy, d.Seed, d.ChangePoints = "sync", base.Seed*977+5, nil
	d.MapPolicy, d.MapSeed = "rotate", base.MapSeed*29+1
	return []casefmt.SimConfig{a, b, c, d}
}

func evalC04(b *Bundle, r *Runner) []*Violation {
	var exp c04Expect
	if err := json.Unmarshal(b.Expect, &exp); err != nil {
		infra("C04: bad expectation: %v", err)
	}
	var vs []*Violation
	for si0, sp := range c04Spellings[exp.Type] {
		parallel := strings.HasPrefix(sp, "PARALLEL")
		if b.hasTag("big_table") && !parallel && si0 > 0 {
			continue // big tables: every PARALLEL spelling plus one sequential baseline
		}
		if exp.Using != "" && strings.Contains(sp, "STRAIGHT") {
			continue // the grammar has no STRAIGHT_JOIN ... USING
		}
		sims := []casefmt.SimConfig{b.Case.Sim}
		if parallel {
			sims = c04Sims(b.Case.Sim)
		}
		for si, sim := range sims {
			c := b.Case
			c.Sim = sim
			lt, rt := "t", "u"
			if exp.Derived == "left" || exp.Derived == "both" {
				lt = "(SELECT * FROM t)"
			}
			if exp.Derived == "right" || exp.Derived == "both" {
				rt = "(SELECT * FROM u)"
			}
			q := fmt.Sprintf("SELECT * FROM %s x %s %s y ON %s", lt, sp, rt, exp.OnSQL)
			if exp.Using != "" {
				q = fmt.Sprintf("SELECT * FROM %s x %s %s y USING (%s)", lt, sp, rt, exp.Using)
			}
			ops := []casefmt.Op{}
			if exp.Prelude != "" {
				ops = append(ops, casefmt.Op{Doc: 0, Vars: -1, Query: exp.Prelude})
			}
			ops = append(ops, casefmt.Op{Doc: 0, Vars: -1, Query: q})
			c.Clients = []casefmt.Client{{Name: "client0", Ops: ops}}
			o := r.Run(&c, parallel || strings.Contains(exp.Prelude, "PARALLEL"))
			site := "spelling=" + spellingClass(sp)
			if hv := processHealth(b, o); len(hv) > 0 {
				for _, v := range hv {
					v.Sig += " " + site
					v.Detail = q + "\n" + v.Detail
				}
				vs = append(vs, hv...)
				continue
			}
			for i, sig := range o.Races {
				if !strings.Contains(sig, "join.go") {
					// races outside the join machinery belong to C13
					r.Stats.probe("race_outside_join_ignored")
					continue
				}
				vs = append(vs, mkViolation(b, "DATA_RACE", raceFuncSig(sig), q+"\n"+sig+"\n"+o.RaceTexts[i], o))
			}
			if len(o.Ops) != len(ops) {
				infra("C04: expected %d op observations, got %d", len(ops), len(o.Ops))
			}
			op := &o.Ops[len(o.Ops)-1]
			if exp.Prelude != "" {
				r.Stats.probe("ran_after_a_prelude_join_" + opOutcome(&o.Ops[0]))
			}
			if failed(op) {
				vs = append(vs, mkViolation(b, "JOIN_FAILED", site, fmt.Sprintf("%s\n failed: %s%s", q, op.NewErr, op.ExecErr), o))
				continue
			}
			got, ok := asArray(normJSON(op.Rows))
			if !ok || !multisetEqual(got, exp.Rows) {
				vs = append(vs, mkViolation(b, "JOIN_MULTISET", site, fmt.Sprintf("%s (schedule %d: %s/%s)\n on t=%s\n    u=%s\n textbook %s\n engine   %s", q, si, sim.Strategy, sim.MapPolicy,
					docTable(b, "t"), docTable(b, "u"), canonSorted(exp.Rows), canonSortedRaw(op.Rows)), o))
				continue
			}
			if string(op.Rows) != string(op.RowsAfter) {
				vs = append(vs, mkViolation(b, "RESULT_CHANGED_AFTER_RETURN", site, q, o))
			}
			if parallel {
				if o.Sim.Spawns > 1 && o.Sim.Contended > 0 {
					r.Stats.probe("parallel_workers_interleaved")
				}
				if o.Sim.MutexContended > 0 {
					r.Stats.probe("join_mutex_contended")
				}
				if o.Sim.Spawns > 0 {
					r.Stats.probe("parallel_join_spawned_workers")
				}
			}
			if len(exp.Rows) > 0 {
				r.Stats.probe("nonempty_join_result")
			}
		}
	}
	if exp.Equi {
		r.Stats.probe("equi_join_bundles")
	} else {
		r.Stats.probe("theta_join_bundles")
	}
	return vs
}

func spellingClass(sp string) string {
	return strings.ReplaceAll(strings.ReplaceAll(strings.ReplaceAll(sp, " OUTER", ""), " INNER", ""), " ", "_")
}

func docTable(b *Bundle, name string) string {
	var d map[string]any
	json.Unmarshal(b.Case.Docs[0], &d)
	return canonText(d[name])
}

func canonSorted(rows []any) string {
	ss := make([]string, len(rows))
	for i, r := range rows {
		ss[i] = canonText(r)
	}
	sort.Strings(ss)
	return "[" + strings.Join(ss, ", ") + "]"
}

func canonSortedRaw(raw json.RawMessage) string {
	a, ok := asArray(normJSON(raw))
	if !ok {
		return compact(raw)
	}
	return canonSorted(a)
}

func corpusC04() []*Bundle {
	num := func(v float64) any { return v }
	mk := func(name, typ string, on *c04Node, left, right []any, strat string) *Bundle {
		exp := c04Expect{Type: typ, On: on, OnSQL: on.sql(), Equi: on.equi(), Rows: textbookJoin(typ, on, left, right)}
		c := oneClientCase("C04", casefmt.SimConfig{Strategy: strat, Seed: 5, WalkP: 0.5, MapPolicy: "reverse"}, map[string]any{"t": left, "u": right}, casefmt.Op{Doc: 0, Vars: -1})
		return &Bundle{Prop: "C04", Kind: "corpus:" + name, Case: c, Expect: mustJSON(exp), Tags: []string{"corpus", "type:" + typ}}
	}
	leaf := func(l, r, op string, flip bool) *c04Node {
		return &c04Node{Leaf: &c04Cmp{L: l, R: r, Op: op, Flip: flip}}
	}
	and := func(a, b *c04Node) *c04Node { return &c04Node{Conn: "AND", Left: a, Right: b} }
	or := func(a, b *c04Node) *c04Node { return &c04Node{Conn: "OR", Left: a, Right: b} }
	// the cases named in the statement and in the pinned tree's defects
	lt := []any{
		map[string]any{"id": num(1), "a": num(1), "z": num(2)},
		map[string]any{"id": num(2), "a": num(2), "z": num(1)},
		map[string]any{"id": num(3), "a": num(2), "z": num(1)},
		map[string]any{"id": num(4), "a": num(3), "z": num(3)},
	}
	rt := []any{
		map[string]any{"id": num(1), "m": num(1), "b": num(2)},
		map[string]any{"id": num(2), "m": num(2), "b": num(1)},
		map[string]any{"id": num(3), "m": num(2), "b": num(1)},
		map[string]any{"id": num(4), "m": num(1), "b": num(1)},
	}
	var out []*Bundle
	for _, strat := range []string{"np", "walk"} {
		for _, typ := range []string{"inner", "left", "right"} {
			out = append(out,
				mk("two-key-name-order", typ, and(leaf("a", "m", "=", false), leaf("z", "b", "=", false)), lt, rt, strat),
				mk("two-key-flipped", typ, and(leaf("z", "b", "=", true), leaf("a", "m", "=", false)), lt, rt, strat),
				mk("theta", typ, leaf("a", "m", "<", false), lt, rt, strat),
				mk("theta-or", typ, or(leaf("a", "m", "=", false), leaf("z", "b", ">", true)), lt, rt, strat),
				mk("eq-and-ne", typ, and(leaf("a", "m", "=", false), leaf("z", "b", "!=", false)), lt, rt, strat),
				mk("empty-right", typ, leaf("a", "m", "=", false), lt, []any{}, strat),
				mk("empty-left", typ, leaf("a", "m", ">=", false), []any{}, rt, strat),
			)
		}
	}
	// keys that are no plain words (written as quoted keys), fractions against Go ints, the negative zero
	qt := []any{
		map[string]any{"id": num(1), "k-1": num(1), "a": num(2)},
		map[string]any{"id": num(2), "k-1": num(2), "a": math.Copysign(0, -1)},
		map[string]any{"id": num(3), "k-1": num(2), "a": num(0)},
	}
	qu := []any{
		map[string]any{"id": num(7), "user id": num(2), "m": num(2.5)},
		map[string]any{"id": num(8), "user id": num(3), "m": num(0)},
		map[string]any{"id": num(9), "user id": num(1), "m": num(1.5)},
	}
	// (the key columns one level down, under keys that have to be quoted inside the path)
	nt := []any{
		map[string]any{"id": num(1), "h": map[string]any{"x-id": num(1)}},
		map[string]any{"id": num(2), "h": map[string]any{"x-id": num(2)}},
		map[string]any{"id": num(3), "h": map[string]any{"x-id": num(5)}},
	}
	nu := []any{
		map[string]any{"id": num(7), "meta": map[string]any{"user-id": num(1)}},
		map[string]any{"id": num(8), "meta": map[string]any{"user-id": num(3)}},
	}
	for _, typ := range []string{"inner", "left", "right"} {
		for _, op := range []string{"=", "<=", "!="} {
			out = append(out, mk("quoted-keys"+op, typ, leaf("k-1", "user id", op, false), qt, qu, "walk"))
			out = append(out, mk("quoted-key-inside-a-path"+op, typ, leaf("h.x-id", "meta.user-id", op, false), nt, nu, "walk"))
			for _, flip := range []bool{false, true} {
				b := mk(fmt.Sprintf("fraction-vs-int%s-flip-%v", op, flip), typ, leaf("a", "m", op, flip), qt, qu, "walk")
				b.Case.NativeIntKeys = []string{"t"}
				out = append(out, b)
				out = append(out, mk(fmt.Sprintf("negative-zero%s-flip-%v", op, flip), typ, leaf("a", "m", op, flip), qt, qu, "walk"))
			}
		}
	}
	return out
}

func init() {
	register(&Property{
		ID: "C04", Race: true, Plain: true, Level: "exploration",
		Rule:   "cases = rapid-generated logical joins (two aliased tables of 0-6 rows, 1-3 key column pairs of one scalar kind each with duplicate keys and per-side column names in arbitrary order, ON = tree of 1-4 column-to-column comparisons over = != < <= > >= joined by AND/OR with either orientation, join type inner/left/right; tables of different Go numeric types and magnitudes >= 1e6; now and then 66-140 distinct keys; a third of the cases issue a possibly failing prelude join first) plus a fixed corpus; each logical join is executed once per strategy spelling of its type (8-10 spellings: automatic, HASH_JOIN, STRAIGHT_JOIN, PARALLEL variants), PARALLEL spellings in a -race child under four schedule/map-order configurations (drawn, walk, pct, sync); every execution is compared as a multiset with a textbook nested-loop join computed by the driver; non-trivial = >=2 tasks runnable at some yield or a non-identity map order was applied; distinct = distinct case-file hash; one case in eight names the key columns alike on both sides and writes the equi-conjunction as USING (c1, ..) under every spelling the grammar allows; key names that need quoting, names with upper-case letters and paths into nested objects; fractions against Go ints and the negative zero; a quoted key inside a join-column path; either or both sides a derived table",
		Corpus: corpusC04, Gen: genC04, Eval: evalC04, QuickChecks: 30,
		Assumptions: []string{
			"each key column pair holds one scalar kind (number or string) and no NULLs: the statement fixes nothing about cross-kind or NULL key comparison",
			"ThreadSanitizer on the controlled schedule decides unsynchronised appends to the join result; race reports outside join.go are left to C13",
			"preemption granularity is the statement",
		},
		Components: map[string][]string{
			"real": {"genql (instrumented copy of /repo working tree)", "sqlparser", "compare", "Go runtime", "ThreadSanitizer"},
			"stub": {"goroutine scheduler (zzsim)", "map iteration order (zzsim)", "blocking of sync.Mutex/WaitGroup (modelled; real primitive executed once it cannot block)"},
		},
	})
}
