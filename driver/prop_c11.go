package main

import (
	"encoding/json"
	"fmt"
	"strings"

	"pgregory.net/rapid"

	"verif/casefmt"
)

// C11 — queries never modify the caller's input document: deep-equal and
// identity-equal (same maps, same slice headers, spare capacity untouched, no
// cycles) when New/Exec return and after all background work has drained —
// for success and for every point at which evaluation can fail part-way.

type c11Expect struct {
	Mode     string     `json:"mode"` // "stub" | "raise" | "type_error" | "plain"
	FQ       faultQuery `json:"fq"`
	Wrapped  bool       `json:"wrapped"`
	NRows    int        `json:"n_rows,omitempty"`
	BadTable string     `json:"bad_table,omitempty"`
	BadCol   string     `json:"bad_col,omitempty"`
	Nested   bool       `json:"nested,omitempty"`
	Scalar   bool       `json:"scalar,omitempty"`
}

func c11Judge(b *Bundle, o *casefmt.Obs, what string) []*Violation {
	if o.Fatal != "" || o.Sim.Outcome != "ok" {
		return nil // the process died or hung: C10's finding; the input cannot be inspected
	}
	var vs []*Violation
	for i := range o.Ops {
		op := &o.Ops[i]
		if !op.Started {
			continue
		}
		if len(op.InputDiff) > 0 {
			vs = append(vs, mkViolation(b, "INPUT_MODIFIED", diffClass(op.InputDiff), fmt.Sprintf("%s (outcome %s %s%s%s): input differs when the call returns:\n  %s", what, opOutcome(op), op.NewErr, op.ExecErr, op.Panic, strings.Join(op.InputDiff, "\n  ")), o))
			continue
		}
		if len(op.InputDiffEnd) > 0 {
			vs = append(vs, mkViolation(b, "INPUT_MODIFIED_AFTER_RETURN", diffClass(op.InputDiffEnd), fmt.Sprintf("%s: input differs after background work drained:\n  %s", what, strings.Join(op.InputDiffEnd, "\n  ")), o))
		}
	}
	return vs
}

// diffClass reduces an input diff to a stable class: what kind of change.
func diffClass(diffs []string) string {
	kinds := map[string]bool{}
	for _, d := range diffs {
		switch {
		case strings.Contains(d, `key "<-" added`):
			kinds["marker-key-added"] = true
		case strings.Contains(d, "added (<func"):
			kinds["thunk-key-added"] = true
		case strings.Contains(d, "added"):
			kinds["key-added"] = true
		case strings.Contains(d, "removed"):
			kinds["key-removed"] = true
		case strings.Contains(d, "cycle"):
			kinds["cycle"] = true
		case strings.Contains(d, "spare capacity"):
			kinds["spare-capacity-overwritten"] = true
		case strings.Contains(d, "resliced"), strings.Contains(d, "length changed"):
			kinds["array-resliced"] = true
		case strings.Contains(d, "value changed"):
			kinds["value-changed"] = true
		case strings.Contains(d, "replaced"):
			kinds["container-replaced"] = true
		default:
			kinds["other"] = true
		}
	}
	return strings.Join(sortedKeys(kinds), "+")
}

func evalC11(b *Bundle, r *Runner) []*Violation {
	var exp c11Expect
	if err := json.Unmarshal(b.Expect, &exp); err != nil {
		infra("C11: bad expectation: %v", err)
	}
	mkOps := func(q string) []casefmt.Client {
		return []casefmt.Client{{Name: "client0", Ops: []casefmt.Op{{Doc: 0, Vars: -1, Query: q, Wrapped: exp.Wrapped}}}}
	}
	var vs []*Violation
	switch exp.Mode {
	case "stub", "plain":
		base := b.Case
		base.Clients = mkOps(exp.FQ.Query)
		base.Stubs.Faults = nil
		o0 := r.Run(&base, false)
		vs = append(vs, c11Judge(b, o0, fmt.Sprintf("fault-free %q", exp.FQ.Query))...)
		if len(vs) > 0 || o0.Fatal != "" || o0.Sim.Outcome != "ok" || len(o0.Ops) == 0 {
			return vs
		}
		if opOutcome(&o0.Ops[0]) == "ok" {
			r.Stats.probe("success_path_checked")
		}
		if len(exp.FQ.Async) > 0 && o0.Sim.Spawns > 0 {
			r.Stats.probe("background_work_in_flight")
		}
		counts := map[int]int{}
		for _, c := range o0.Calls {
			counts[c.ID]++
		}
		for _, site := range exp.FQ.Sites {
			for k := 1; k <= counts[site]; k++ {
				for _, kind := range []string{"error", "panic", "panic_str"} {
					fc := base
					fc.Stubs.Faults = []casefmt.Fault{{ID: site, K: k, Kind: kind}}
					o := r.Run(&fc, false)
					what := fmt.Sprintf("%s at invocation %d of site %d (%s) in %q wrapped=%v", kind, k, site, positionOfSiteFQ(&exp.FQ, site), exp.FQ.Query, exp.Wrapped)
					if v := c11Judge(b, o, what); len(v) > 0 {
						vs = append(vs, v...)
						return vs
					}
					r.Stats.probe("crash_point_" + kind)
				}
			}
		}
	default:
		var doc0 map[string]any
		json.Unmarshal(b.Case.Docs[0], &doc0)
		trows, _ := doc0["t"].([]any)
		for j := 0; j < exp.NRows && j < len(trows); j++ {
			c := b.Case
			q := exp.FQ.Query
			if exp.Mode == "raise" {
				q = strings.ReplaceAll(q, "%J%", fmt.Sprint(j+1))
			} else {
				d, ok := corruptDoc(b.Case.Docs[0], exp.BadTable, j, exp.BadCol, exp.Nested, exp.Scalar)
				if !ok {
					continue
				}
				c.Docs = []json.RawMessage{d}
			}
			if exp.Wrapped {
				q = wrapTables(q)
			}
			c.Clients = mkOps(q)
			o := r.Run(&c, false)
			if v := c11Judge(b, o, fmt.Sprintf("%s on row %d in %q wrapped=%v", exp.Mode, j+1, q, exp.Wrapped)); len(v) > 0 {
				return append(vs, v...)
			}
			r.Stats.probe("crash_point_" + exp.Mode)
		}
	}
	return vs
}

func positionOfSiteFQ(fq *faultQuery, site int) string {
	for i, s := range fq.Sites {
		if s == site && i < len(fq.Positions) {
			return fq.Positions[i]
		}
	}
	return "site"
}

// wrapTables rewrites the fixed templates' table names for the Wrapped option.
func wrapTables(q string) string {
	q = strings.ReplaceAll(q, " FROM t", " FROM root.t")
	q = strings.ReplaceAll(q, " FROM u", " FROM root.u")
	q = strings.ReplaceAll(q, " JOIN u", " JOIN root.u")
	q = strings.ReplaceAll(q, "`<-meta`", "`<-root.meta`")
	q = strings.ReplaceAll(q, "`distinct=>dups`", "`distinct=>root.dups`")
	q = strings.ReplaceAll(q, "`distinct=>objs`", "`distinct=>root.objs`")
	q = strings.ReplaceAll(q, "`distinct=>t`", "`distinct=>root.t`")
	q = strings.ReplaceAll(q, "`t[", "`root.t[")
	for _, k := range []string{"teams", "rag", "deep"} {
		q = strings.ReplaceAll(q, " FROM "+k, " FROM root."+k)
		q = strings.ReplaceAll(q, "`<-"+k+"`", "`<-root."+k+"`")
	}
	return q
}

// nestedTables adds two tables whose rows are arrays to a fault document: teams (the n arrays of t's rows: an array of
// arrays of objects) and rag (objects and arrays of objects side by side). No draws: the document stays what it was.
func nestedTables(doc map[string]any) {
	teams, rag := []any{}, []any{}
	for i, r := range doc["t"].([]any) {
		n, _ := r.(map[string]any)["n"].([]any)
		cp := []any{}
		for _, e := range n {
			m := map[string]any{}
			for k, v := range e.(map[string]any) {
				m[k] = v
			}
			cp = append(cp, m)
		}
		teams = append(teams, cp)
		if i%2 == 0 {
			rag = append(rag, map[string]any{"v": float64(i), "w": "r"})
		}
		cp2 := []any{}
		for _, e := range n {
			m := map[string]any{}
			for k, v := range e.(map[string]any) {
				m[k] = v
			}
			cp2 = append(cp2, m)
		}
		rag = append(rag, cp2)
	}
	doc["teams"], doc["rag"] = teams, rag
}

// genPagedQuery: a single-table query assembled from independent clauses over a table that may be larger than any
// batch, pool or fast-path threshold (the caller draws 70-300 rows): select list x alias x WHERE x DISTINCT x ORDER BY x
// LIMIT/OFFSET. The input must come back as it went in whatever route the engine takes for the combination.
func genPagedQuery(t *rapid.T, nrows int) string {
	alias := rapid.SampledFrom([]string{"", "", " x"}).Draw(t, "pg_alias")
	p := ""
	if alias != "" {
		p = "x."
	}
	list := rapid.SampledFrom([]string{"*", "*", p + "id, " + p + "a", p + "id", p + "s, " + p + "a AS aa", "*, " + p + "a AS a2"}).Draw(t, "pg_list")
	q := "SELECT "
	if rapid.IntRange(0, 5).Draw(t, "pg_distinct") == 0 {
		q += "DISTINCT "
	}
	q += list + " FROM t" + alias
	if rapid.IntRange(0, 2).Draw(t, "pg_where") == 0 {
		q += " WHERE " + p + rapid.SampledFrom([]string{"a >= 10", "id > 3", "s LIKE 'x%'", "a >= 0"}).Draw(t, "pg_pred")
	}
	if rapid.IntRange(0, 3).Draw(t, "pg_order") > 0 {
		q += " ORDER BY " + p + rapid.SampledFrom([]string{"id", "id DESC", "a", "a DESC, " + p + "id", "s, " + p + "id DESC", "s"}).Draw(t, "pg_key")
	}
	if rapid.IntRange(0, 3).Draw(t, "pg_limit") > 0 {
		q += fmt.Sprintf(" LIMIT %d", rapid.SampledFrom([]int{1, 2, 3, 10, nrows / 2, nrows, nrows + 5}).Draw(t, "pg_n"))
		if rapid.Bool().Draw(t, "pg_off") {
			q += fmt.Sprintf(" OFFSET %d", rapid.SampledFrom([]int{0, 1, 2, nrows / 2}).Draw(t, "pg_m"))
		}
	}
	return q
}

// bigTable: nrows rows in no particular order of id/a/s (so that a sort has work to do), with one nested array each.
func bigTable(t *rapid.T, nrows int) []any {
	rows := make([]any, nrows)
	perm := rapid.Permutation(func() []int {
		x := make([]int, nrows)
		for i := range x {
			x[i] = i
		}
		return x
	}()).Draw(t, "pg_perm")
	for i := range rows {
		k := perm[i]
		rows[i] = map[string]any{"id": float64(k + 1), "a": float64((k * 7) % 50), "s": []string{"x", "xy", "z"}[k%3], "n": []any{map[string]any{"v": float64(k % 5), "w": "p"}}}
	}
	return rows
}

// plain (no fault site) queries over the shapes the statement names.
var c11PlainQueries = []string{
	"SELECT * FROM t",
	"SELECT id, a FROM t WHERE a >= 10 AND s LIKE 'x%'",
	"SELECT id, (SELECT v FROM n WHERE v >= 1) AS sub FROM t",
	"SELECT id FROM t WHERE EXISTS (SELECT v FROM n WHERE v >= 1 AND id >= 1)",
	"SELECT id FROM t WHERE id IN (SELECT v FROM n)",
	"SELECT id, (SELECT ip FROM `<-meta`) AS m FROM t",
	"WITH c AS (SELECT id, a FROM t WHERE a >= 10) SELECT * FROM c",
	"WITH c1 AS (SELECT id, a FROM t), c2 AS (SELECT id FROM c1 WHERE a >= 10) SELECT * FROM c2",
	"WITH c AS (SELECT id, n FROM t) SELECT v FROM `c.n`",
	"SELECT * FROM (SELECT id, a FROM t) d",
	"SELECT * FROM t x JOIN u y ON x.id = y.id",
	// USING: the joined row repeats the column on both sides; the sides are the caller's rows
	"SELECT * FROM t x JOIN u y USING (id)",
	"SELECT * FROM t x LEFT JOIN u y USING (id)",
	"SELECT * FROM t x RIGHT JOIN u y USING (id)",
	"SELECT * FROM t x PARALLEL JOIN u y USING (id)",
	"SELECT x.id, y.b FROM t x HASH_JOIN u y USING (id)",
	"SELECT * FROM (SELECT id, a FROM t) x JOIN u y USING (id)",
	"SELECT * FROM t x LEFT JOIN u y ON x.id = y.id",
	"SELECT * FROM t x PARALLEL JOIN u y ON x.id = y.id",
	"SELECT * FROM t x HASH_JOIN u y ON x.id = y.id",
	"SELECT * FROM t x JOIN u y ON x.id < y.id",
	"SELECT id, a FROM t ORDER BY a DESC, id",
	"SELECT id, a FROM t ORDER BY a LIMIT 2",
	"SELECT id FROM t LIMIT 1 OFFSET 1",
	"SELECT DISTINCT s FROM t",
	"SELECT DISTINCT * FROM t",
	"SELECT s, COUNT(*) AS c, SUM(a) AS sa FROM t GROUP BY s",
	"SELECT COUNT(*) AS c, MAX(a) AS m FROM t",
	"SELECT s, * FROM t GROUP BY s HAVING COUNT(*) >= 1",
	"SELECT id FROM t UNION ALL SELECT id FROM u",
	"SELECT id, ASYNC.fx(90, a) AS y, SPIN.fx(91, a), SPINASYNC.fx(92, id) FROM t",
	"SELECT id FROM t WHERE a BETWEEN 0 AND 100",
	"SELECT id, CASE WHEN a >= 20 THEN 'big' ELSE s END AS k FROM t",
	// selector language: top-level functions, open slices, each, reshape, continue-with
	"SELECT * FROM `distinct=>dups`",
	"SELECT k FROM `distinct=>objs`",
	"SELECT id, `distinct=>tags` AS dt, `tags[(1:end)]` AS sl FROM t",
	"SELECT id, `tags[(begin:2)]` AS sl2, `grid[each:0]` AS g0, `n{v|string, w}` AS rs FROM t",
	"SELECT id, `mix=>n[each].v` AS mx, `n[(0:end)].w` AS ws, `grid[(0:end)]::[0]` AS cont FROM t",
	"SELECT id FROM `t[(1:end)]`",
	"SELECT id FROM `distinct=>t`",
	"SELECT id, tags FROM t ORDER BY id DESC",
	"SELECT id, a FROM t ORDER BY s, a DESC LIMIT 3 OFFSET 1",
	// FUSE of a column (the fused object is the caller's), unaliased join sides (rows are the caller's), INTO
	"SELECT FUSE(o), * FROM t",
	"SELECT FUSE(o), id FROM t",
	"SELECT *, FUSE(o) FROM t",
	"SELECT id, (SELECT FUSE(o), * FROM dual) AS sub FROM t",
	"SELECT * FROM t LEFT JOIN u y ON id = y.id",
	"SELECT * FROM t x RIGHT JOIN u ON x.id = id",
	"SELECT * FROM t PARALLEL LEFT JOIN u y ON id = y.id",
	"SELECT * FROM t LEFT JOIN u y ON id < y.id",
	"SELECT * FROM t JOIN u ON s = b",
	"SELECT * FROM t x LEFT JOIN u y ON x.id < y.id INTO j",
	"SELECT * FROM t x HASH_JOIN u y ON x.id = y.id INTO j",
	"SELECT * FROM t x RIGHT JOIN u y ON x.id = y.id INTO j",
	// selectors that flatten ranges under each; built-in functions applied to arrays and objects of the document
	"SELECT id, `grid[each (0:1)]` AS g FROM t",
	"SELECT id, `grid[each (begin:1)]` AS g, `grid[each (1:2)]` AS h FROM t",
	"SELECT id, (SELECT `<-grid[each (0:1)]` AS g FROM dual) AS sub FROM t",
	"SELECT id, CHANGETYPE(scores, 'double') AS x FROM t",
	"SELECT id, CHANGETYPE(scores, 'integer') AS x FROM t",
	"SELECT id, CHANGETYPE(nums, 'integer') AS x FROM t",
	"SELECT id, CHANGETYPE(nums, 'string') AS x, CHANGETYPE(tags, 'array') AS y FROM t",
	"SELECT id FROM t WHERE CHANGETYPE(nums, 'integer') IS NOT NULL",
	"SELECT id, UNWIND(grid) AS u FROM t",
	"SELECT id, FIRST(tags) AS f, LAST(tags) AS l, ELEMENTAT(tags, 0) AS e FROM t",
	"SELECT id, ARRAY(tags, grid, nums) AS arr FROM t",
	"SELECT id, HASH(o) AS h, ENCODE(o) AS e, DEFAULTKEY(o) AS dk FROM t",
	"SELECT id, CONCAT(s, '-', a) AS c, IF(f, tags, nums) AS pick FROM t",
	"SELECT id, TO_UPPER(s) AS u, TO_LOWER(s) AS l FROM t",
	// tables whose rows are arrays themselves (teams: arrays of objects; rag: objects and arrays side by side; deep) in
	// every place a table can stand; several of these fail on the unchanged tree (INVALID_TYPE) - the input is judged either way
	"SELECT v, w FROM teams",
	"SELECT v FROM rag WHERE v >= 1",
	"SELECT * FROM teams ORDER BY v DESC",
	"SELECT DISTINCT * FROM rag",
	"SELECT * FROM (SELECT v FROM teams) d",
	"SELECT id FROM t WHERE EXISTS (SELECT v FROM `<-teams` WHERE v >= 1)",
	"SELECT id FROM t WHERE EXISTS (SELECT v FROM `<-teams` WHERE v = id)",
	"SELECT id FROM t WHERE EXISTS (SELECT v FROM `<-rag` WHERE v >= id)",
	"SELECT id FROM t WHERE EXISTS (SELECT RAISE_WHEN(v = 2, 'no two') FROM `<-teams`)",
	"SELECT id FROM u WHERE EXISTS (SELECT a FROM `<-deep` WHERE a >= 10)",
	"SELECT id, (SELECT v FROM `<-teams`) AS sub FROM t",
	"SELECT id, (SELECT * FROM `<-rag`) AS sub FROM t",
	"SELECT id FROM t WHERE id IN (SELECT v FROM `<-teams`)",
	"SELECT id FROM t WHERE NOT EXISTS (SELECT * FROM `<-deep`)",
	"WITH c AS (SELECT v FROM teams) SELECT * FROM c",
	// WITH in sibling / nested statements
	"WITH c AS (SELECT id, a FROM t) SELECT id FROM c UNION ALL SELECT id FROM u",
	"WITH c AS (SELECT id FROM t) SELECT id FROM c UNION SELECT id FROM c",
	"SELECT id FROM t UNION ALL WITH c AS (SELECT id FROM u) SELECT id FROM c",
	"SELECT * FROM (WITH c AS (SELECT id, a FROM t) SELECT id FROM c) d",
	"SELECT * FROM (WITH c1 AS (SELECT id, a FROM t) SELECT id, a FROM c1) x JOIN (WITH c2 AS (SELECT id FROM u) SELECT id FROM c2) y ON x.id = y.id",
	"SELECT id, (SELECT * FROM (WITH c AS (SELECT v FROM n) SELECT v FROM c) d) AS sub FROM t",
	"WITH c AS (WITH d AS (SELECT id FROM t) SELECT id FROM d) SELECT id FROM c",
}

func genC11(t *rapid.T) *Bundle {
	doc := faultDoc(t)
	mode := rapid.SampledFrom([]string{"stub", "stub", "plain", "raise", "type_error"}).Draw(t, "mode")
	wrapped := rapid.Bool().Draw(t, "wrapped")
	sim := drawSim(t, "")
	exp := c11Expect{Mode: mode, Wrapped: wrapped}
	nrows := len(doc["t"].([]any))
	root := ""
	if wrapped {
		root = "root."
	}
	switch mode {
	case "stub":
		exp.FQ = genFaultQueryOpt(t, root, true)
	case "plain":
		nestedTables(doc)
		q := rapid.SampledFrom(c11PlainQueries).Draw(t, "plain_q")
		shape := "plain"
		if rapid.IntRange(0, 2).Draw(t, "paged") == 0 {
			// a table beyond any threshold (or a small one), and a query assembled clause by clause
			n := rapid.SampledFrom([]int{3, 17, 70, 130, 300}).Draw(t, "pg_rows")
			doc["t"] = bigTable(t, n)
			q = genPagedQuery(t, n)
			shape = "paged"
		}
		if wrapped {
			q = wrapTables(q)
		}
		exp.FQ = faultQuery{Query: q, Shape: shape}
		if strings.Contains(q, "fx(") {
			exp.FQ.Async = []int{90, 91, 92}
		}
	case "raise":
		tpl := rapid.SampledFrom(c19RaiseTemplates).Draw(t, "raise_tpl")
		exp.FQ = faultQuery{Query: tpl.q, Shape: tpl.shape}
		exp.NRows = nrows
	case "type_error":
		tpl := rapid.SampledFrom(c19TypeTemplates).Draw(t, "type_tpl")
		exp.FQ = faultQuery{Query: tpl.q, Shape: tpl.shape}
		exp.NRows = nrows
		exp.BadTable, exp.BadCol, exp.Nested, exp.Scalar = tpl.table, tpl.col, tpl.nested, tpl.scalar
	}
	c := oneClientCase("C11", sim, doc, casefmt.Op{Doc: 0, Vars: -1, Query: exp.FQ.Query, Wrapped: wrapped})
	c.Stubs.Lat = drawLatencies(t, exp.FQ.Async, 5)
	// a caller who fills the document from typed Go data passes []map[string]any tables
	c.TypedTables = rapid.IntRange(0, 3).Draw(t, "typed_tables") == 0
	tags := []string{"mode:" + mode, "shape:" + exp.FQ.Shape, fmt.Sprintf("wrapped:%v", wrapped)}
	if c.TypedTables {
		tags = append(tags, "typed_tables")
	}
	return &Bundle{Prop: "C11", Kind: mode, Case: c, Expect: mustJSON(exp), Tags: tags}
}

func corpusC11() []*Bundle {
	doc := map[string]any{
		"t": []any{
			map[string]any{"id": 1.0, "a": 10.0, "s": "x", "f": true, "n": []any{map[string]any{"v": 1.0, "w": "p"}, map[string]any{"v": 2.0, "w": "q"}}, "tags": []any{"x", "x", "y", "z"}, "grid": []any{[]any{1.0, 2.0}, []any{3.0, 4.0}}, "o": map[string]any{"p": 1.0, "q": "k"}, "scores": []any{"4", "5", "n/a"}, "nums": []any{1.5, 2.0}},
			map[string]any{"id": 2.0, "a": 20.0, "s": "xy", "f": false, "n": []any{map[string]any{"v": 3.0, "w": "p"}}, "tags": []any{"y", "y"}, "grid": []any{[]any{5.0, 6.0}}, "o": map[string]any{"p": 2.0, "q": "m"}, "scores": []any{"7", "8", "9"}, "nums": []any{3.5}},
			map[string]any{"id": 3.0, "a": 30.0, "s": "x", "f": true, "n": []any{}, "tags": []any{}, "grid": []any{}, "o": map[string]any{"p": 3.0, "q": "k"}, "scores": []any{}, "nums": []any{}},
			map[string]any{"id": 1.0, "a": 10.0, "s": "x", "f": true, "n": []any{map[string]any{"v": 1.0, "w": "p"}, map[string]any{"v": 2.0, "w": "q"}}, "tags": []any{"x", "x", "y", "z"}, "grid": []any{[]any{1.0, 2.0}, []any{3.0, 4.0}}},
		},
		"u":    []any{map[string]any{"id": 1.0, "b": "k", "g": true}, map[string]any{"id": 3.0, "b": "m", "g": false}},
		"meta": map[string]any{"ip": "10.0.0.1"},
		"dups": []any{1.0, 1.0, 2.0, 3.0, 2.0},
		"objs": []any{map[string]any{"k": 1.0}, map[string]any{"k": 1.0}, map[string]any{"k": 2.0}},
	}
	nestedTables(doc)
	doc["deep"] = []any{[]any{map[string]any{"id": 1.0, "a": 10.0}, map[string]any{"id": 2.0, "a": 20.0}}, []any{map[string]any{"id": 3.0, "a": 5.0}}}
	var out []*Bundle
	for _, wrapped := range []bool{false, true} {
		for _, q := range c11PlainQueries {
			qq := q
			if wrapped {
				qq = wrapTables(q)
			}
			exp := c11Expect{Mode: "plain", Wrapped: wrapped, FQ: faultQuery{Query: qq, Shape: "plain"}}
			c := oneClientCase("C11", casefmt.SimConfig{Strategy: "walk", WalkP: 0.1, Seed: 5, MapPolicy: "reverse"}, doc, casefmt.Op{Doc: 0, Vars: -1, Query: qq, Wrapped: wrapped})
			if strings.Contains(q, "fx(") {
				c.Stubs.Lat = []casefmt.LatRule{{ID: 90, Call: -1, Ns: 1000000}, {ID: 91, Call: -1, Ns: 60000000000}}
			}
			out = append(out, &Bundle{Prop: "C11", Kind: "corpus", Case: c, Expect: mustJSON(exp), Tags: []string{"corpus", "mode:plain", fmt.Sprintf("wrapped:%v", wrapped)}})
		}
	}
	// every C19 corpus position is also a crash point for input integrity
	for _, cb := range corpusC19() {
		var e19 c19Expect
		json.Unmarshal(cb.Expect, &e19)
		exp := c11Expect{Mode: e19.Mode, FQ: e19.FQ, NRows: e19.NRows, BadTable: e19.BadTable, BadCol: e19.BadCol, Nested: e19.Nested, Scalar: e19.Scalar}
		c := cb.Case
		c.Prop = "C11"
		out = append(out, &Bundle{Prop: "C11", Kind: "corpus", Case: c, Expect: mustJSON(exp), Tags: append([]string{"corpus"}, cb.Tags[1:]...)})
	}
	return out
}

func init() {
	register(&Property{
		ID: "C11", Plain: true, Level: "exploration",
		Rule:   "cases = fixed corpus (27 plain queries over filters/subqueries/EXISTS/IN/back-references/CTE chains/derived tables/joins incl. PARALLEL/ORDER BY/LIMIT/DISTINCT/aggregates/UNION/ASYNC+SPIN stubs, each with and without Wrapped, plus every C19 fault position) and rapid-generated queries with 1-4 fault sites and optional ASYNC/SPIN/SPINASYNC stubs; for each query one fault-free run and then one run per crash point: every invocation index k=1..N of every site x {error, panic(error value), panic(string)}, RAISE_WHEN on every row j, a wrongly-typed value in every row j; the harness records identity (map pointers, slice data pointer/len/cap, sentinel-filled spare capacity) and content of the whole input before the call and compares at return and again after all background tasks drained; non-trivial = fault fired or >=2 tasks runnable or non-identity map order; distinct = case-file hash; USING joins, array-of-arrays fault queries, Go-typed ([]map[string]any) input tables",
		Corpus: corpusC11, Gen: genC11, Eval: evalC11, QuickChecks: 150,
		Assumptions: []string{
			"documents are built from JSON (map[string]any, []any, float64, string, bool, nil) with sentinel-filled spare slice capacity",
			"if the child process dies or hangs the input cannot be inspected; that is C10's finding and is not reported here",
		},
		Components: map[string][]string{
			"real": {"genql (instrumented copy of /repo working tree)", "sqlparser", "compare", "Go runtime"},
			"stub": {"user functions fid/fx (fault-injecting, simulated latency)", "goroutine scheduler (zzsim)", "clock (zzsim)"},
		},
	})
}
