package main

import (
	"encoding/json"
	"fmt"
	"strings"

	"pgregory.net/rapid"

	"verif/casefmt"
)

// C19 — a failure anywhere surfaces as an error, never as a partial result.
// Fault enumeration: for every fault site and every invocation index k from 1
// to the number of invocations the fault-free run performs.

type c19Expect struct {
	Mode     string     `json:"mode"` // "stub" | "raise" | "type_error"
	FQ       faultQuery `json:"fq"`
	FollowUp string     `json:"follow_up"`
	// raise / type_error: the query template contains %J% (raise) and the row
	// index enumerates the table rows; BadPath names the column to corrupt
	NRows    int    `json:"n_rows,omitempty"`
	BadTable string `json:"bad_table,omitempty"`
	BadCol   string `json:"bad_col,omitempty"`
	Nested   bool   `json:"nested,omitempty"` // corrupt nested n[0].<BadCol> of row j instead
	Scalar   bool   `json:"scalar,omitempty"` // the wrong-typed value is a scalar ("n/a") instead of an object
}

func rowsEqualMaybeOpen(a, b json.RawMessage, open bool) bool {
	x, y := normJSON(a), normJSON(b)
	if jsonEqual(x, y) {
		return true
	}
	if !open {
		return false
	}
	xa, ok1 := asArray(x)
	ya, ok2 := asArray(y)
	return ok1 && ok2 && multisetEqual(xa, ya)
}

func failed(op *casefmt.OpObs) bool { return op.NewErr != "" || op.ExecErr != "" }

func c19Ops(q, follow string, repeat bool) []casefmt.Op {
	// the failing query's Exec is called a second time on the same Query: the next evaluation behaves as if
	// the failed one had never run
	ops := []casefmt.Op{{Doc: 0, Vars: -1, Query: q, ExecTwice: true}, {Doc: 0, Vars: -1, Query: follow}}
	if repeat {
		ops = append(ops, casefmt.Op{Doc: 0, Vars: -1, Query: q})
	}
	return ops
}

func evalC19(b *Bundle, r *Runner) []*Violation {
	var exp c19Expect
	if err := json.Unmarshal(b.Expect, &exp); err != nil {
		infra("C19: bad expectation: %v", err)
	}
	switch exp.Mode {
	case "stub":
		return evalC19Stub(b, r, &exp)
	case "static_error":
		return evalC19Static(b, r, &exp)
	default:
		return evalC19Data(b, r, &exp)
	}
}

// judgeFailed applies the "error, no rows" oracle to the failed op.
func judgeFailed(b *Bundle, o *casefmt.Obs, op *casefmt.OpObs, what string) *Violation {
	if op.Panic != "" {
		// a panic crossing the API is C10's finding, not an error-propagation one
		return nil
	}
	if !failed(op) {
		return mkViolation(b, "ERROR_SWALLOWED", posOf(b), fmt.Sprintf("%s: New/Exec reported success; rows=%s", what, compact(op.Rows)), o)
	}
	if len(op.Rows) > 0 && string(op.Rows) != "null" && string(op.Rows) != "[]" {
		return mkViolation(b, "PARTIAL_RESULT", posOf(b), fmt.Sprintf("%s: an error was reported (%s%s) together with rows %s", what, op.NewErr, op.ExecErr, compact(op.Rows)), o)
	}
	return nil
}

func posOf(b *Bundle) string {
	for _, t := range b.Tags {
		if strings.HasPrefix(t, "shape:") {
			return t
		}
	}
	return ""
}

func evalC19Stub(b *Bundle, r *Runner, exp *c19Expect) []*Violation {
	base := b.Case
	base.Clients = []casefmt.Client{{Name: "client0", Ops: c19Ops(exp.FQ.Query, exp.FollowUp, true)}}
	base.Stubs.Faults = nil
	o0 := r.Run(&base, false)
	if hv := processHealth(b, o0); len(hv) > 0 {
		r.Stats.probe("baseline_unhealthy_skipped")
		return nil // C10's business; no fault was injected here
	}
	if len(o0.Ops) != 3 || failed(&o0.Ops[0]) || failed(&o0.Ops[1]) {
		r.Stats.probe("baseline_fails_skipped")
		return nil // the fault-free query itself fails: nothing to enumerate
	}
	op0 := &o0.Ops[0]
	counts := map[int]int{}
	for _, c := range o0.Calls {
		if c.SeqStart > op0.SeqStart && c.SeqStart < op0.SeqReturn {
			counts[c.ID]++
		}
	}
	allCalls, base2 := 0, 0
	for _, n := range counts {
		allCalls += n
	}
	for _, c := range o0.Calls {
		if c.SeqStart > op0.SeqReturn && c.SeqStart < o0.Ops[1].SeqStart {
			base2++
		}
	}
	var vs []*Violation
	total := 0
	for _, site := range exp.FQ.Sites {
		n := counts[site]
		if n == 0 {
			r.Stats.probe("site_never_invoked")
		}
		for kk := 0; kk < 3*n; kk++ {
			// every invocation index x {returned error, panic(error), panic(string)}: a panicking function is a
			// failing step as well; if its panic escapes the API that is C10's finding, but it may never turn
			// into a successful-looking result
			k := kk/3 + 1
			kind := []string{"error", "panic", "panic_str"}[kk%3]
			total++
			fc := base
			fc.Stubs.Faults = []casefmt.Fault{{ID: site, K: k, Kind: kind}}
			o := r.Run(&fc, false)
			if v := followUpHang(b, o, fmt.Sprintf("fault at invocation %d of site %d in %q", k, site, exp.FQ.Query)); v != nil {
				vs = append(vs, v)
				continue
			}
			if hv := processHealth(b, o); len(hv) > 0 {
				// crashes/hangs under an *error* fault are still C10's, but record it
				r.Stats.probe("unhealthy_under_fault")
				continue
			}
			if len(o.Ops) != 3 {
				infra("C19: expected 3 op observations, got %d", len(o.Ops))
			}
			fired := false
			for _, c := range o.Calls {
				if c.Faulted != "" {
					fired = true
				}
			}
			if !fired {
				vs = append(vs, mkViolation(b, "FAULT_NOT_REACHED", "", fmt.Sprintf("site %d k=%d was reached in the fault-free run but not in the faulted one: evaluation is not deterministic", site, k), o))
				continue
			}
			r.Stats.probe("fault_in_" + positionOfSite(exp, site))
			r.Stats.probe("fault_kind_" + kind)
			what := fmt.Sprintf("%s at invocation %d of site %d (%s) in %q", kind, k, site, positionOfSite(exp, site), exp.FQ.Query)
			if v := judgeFailed(b, o, &o.Ops[0], what); v != nil {
				vs = append(vs, v)
				continue
			}
			// a second Exec of the very Query that failed: nothing of the failed evaluation may have stuck to it
			if e2 := o.Ops[0].Exec2; e2 != "" && o.Ops[0].Panic == "" {
				if e2 != "ok" || !rowsEqualMaybeOpen(o.Ops[0].Rows2, o0.Ops[0].Rows, exp.FQ.OrderOpen) {
					vs = append(vs, mkViolation(b, "SECOND_EXEC_DIFFERS", posOf(b), fmt.Sprintf("%s\n Exec called again on the same Query (no fault this time): %s %s\n fault-free result: %s", what, e2, compact(o.Ops[0].Rows2), compact(o0.Ops[0].Rows)), o))
					continue
				}
				// ... and it makes the invocations of one evaluation, not those the failed one still owed
				calls2 := 0
				for _, c := range o.Calls {
					if c.SeqStart > o.Ops[0].SeqReturn && c.SeqStart < o.Ops[1].SeqStart {
						calls2++
					}
				}
				// (what New evaluated - CTE bodies, derived tables - and memoised is not evaluated again: between
				// what a second Exec makes after a success and what a whole fresh evaluation makes)
				if calls2 > allCalls || calls2 < base2 {
					vs = append(vs, mkViolation(b, "SECOND_EXEC_DIFFERS", "invocations", fmt.Sprintf("%s\n Exec called again on the same Query (no fault this time) made %d invocations of the stub functions; a whole fault-free evaluation makes %d, a second Exec after a success %d", what, calls2, allCalls, base2), o))
					continue
				}
				r.Stats.probe("second_exec_after_failure_compared")
			}
			// the library stays usable: follow-up and repeat behave as if the failed query had never run
			if opOutcome(&o.Ops[1]) != "ok" || !rowsEqualMaybeOpen(o.Ops[1].Rows, o0.Ops[1].Rows, false) {
				vs = append(vs, mkViolation(b, "FOLLOWUP_DIFFERS", posOf(b), fmt.Sprintf("%s\n follow-up %q after the failure: %s %s%s%s\n on a pristine input: %s", what, exp.FollowUp, compact(o.Ops[1].Rows), o.Ops[1].NewErr, o.Ops[1].ExecErr, o.Ops[1].Panic, compact(o0.Ops[1].Rows)), o))
				continue
			}
			if opOutcome(&o.Ops[2]) != "ok" || !rowsEqualMaybeOpen(o.Ops[2].Rows, o0.Ops[0].Rows, exp.FQ.OrderOpen) {
				vs = append(vs, mkViolation(b, "REPEAT_DIFFERS", posOf(b), fmt.Sprintf("%s\n the same query re-run without a fault: %s %s%s%s\n fault-free result: %s", what, compact(o.Ops[2].Rows), o.Ops[2].NewErr, o.Ops[2].ExecErr, o.Ops[2].Panic, compact(o0.Ops[0].Rows)), o))
			}
		}
	}
	// a function that stays broken: every evaluation that reaches it fails, the second Exec of the same Query included -
	// what the first, failed Exec still owed (work deferred while the query was built) is not forgotten with it
	for _, site := range exp.FQ.Sites {
		if counts[site] == 0 {
			continue
		}
		fc := base
		fc.Stubs.Faults = []casefmt.Fault{{ID: site, K: 1, Kind: "error", Persistent: true}}
		o := r.Run(&fc, false)
		if hv := processHealth(b, o); len(hv) > 0 || len(o.Ops) != 3 {
			continue
		}
		what := fmt.Sprintf("site %d (%s) failing on every invocation in %q", site, positionOfSite(exp, site), exp.FQ.Query)
		if v := judgeFailed(b, o, &o.Ops[0], what); v != nil {
			vs = append(vs, v)
			continue
		}
		if e2 := o.Ops[0].Exec2; e2 == "ok" {
			vs = append(vs, mkViolation(b, "SECOND_EXEC_DIFFERS", "persistent_fault", fmt.Sprintf("%s\n the first Exec failed; Exec called again on the same Query, the function still failing, returned a result: %s", what, compact(o.Ops[0].Rows2)), o))
			continue
		} else if e2 != "" {
			r.Stats.probe("second_exec_under_persistent_fault_failed_again")
		}
	}
	if total > 0 {
		r.Stats.probe("bundles_with_enumeration")
	}
	return vs
}

func positionOfSite(exp *c19Expect, site int) string {
	for i, s := range exp.FQ.Sites {
		if s == site && i < len(exp.FQ.Positions) {
			return exp.FQ.Positions[i]
		}
	}
	return "site"
}

// corruptDoc returns a copy of the document with row j of table (or its first
// nested element) carrying a value of the wrong type in col.
func corruptDoc(raw json.RawMessage, table string, j int, col string, nested bool, scalar ...bool) (json.RawMessage, bool) {
	var bad any = map[string]any{"not": "a number"}
	if len(scalar) > 0 && scalar[0] {
		bad = "n/a"
	}
	var doc map[string]any
	if err := json.Unmarshal(raw, &doc); err != nil {
		return nil, false
	}
	rows, ok := doc[table].([]any)
	if !ok || j >= len(rows) {
		return nil, false
	}
	row, ok := rows[j].(map[string]any)
	if !ok {
		return nil, false
	}
	if nested {
		ns, ok := row["n"].([]any)
		if !ok || len(ns) == 0 {
			return nil, false
		}
		nr, ok := ns[0].(map[string]any)
		if !ok {
			return nil, false
		}
		nr[col] = bad
	} else {
		row[col] = bad
	}
	return mustJSON(doc), true
}

func evalC19Data(b *Bundle, r *Runner, exp *c19Expect) []*Violation {
	var vs []*Violation
	var doc0 map[string]any
	json.Unmarshal(b.Case.Docs[0], &doc0)
	trows, _ := doc0["t"].([]any)
	urows, _ := doc0["u"].([]any)
	// fault-free control: the template must succeed when nothing fires
	{
		c := b.Case
		q := strings.ReplaceAll(exp.FQ.Query, "%J%", "0")
		if exp.Mode == "raise" {
			q = strings.ReplaceAll(exp.FQ.Query, "= %J%", "= -1")
		}
		c.Clients = []casefmt.Client{{Name: "client0", Ops: []casefmt.Op{{Doc: 0, Vars: -1, Query: q}}}}
		o := r.Run(&c, false)
		if len(processHealth(b, o)) > 0 || len(o.Ops) != 1 || opOutcome(&o.Ops[0]) != "ok" {
			r.Stats.probe("baseline_fails_skipped")
			return nil
		}
	}
	for j := 0; j < exp.NRows && j < len(trows); j++ {
		q := exp.FQ.Query
		c := b.Case
		what := ""
		// the fault must be certain to be evaluated
		if strings.Contains(exp.FQ.Shape, "join") && len(urows) == 0 {
			continue
		}
		if strings.Contains(exp.FQ.Shape, "order_key") && len(trows) < 2 {
			continue // a single row is never compared
		}
		if exp.FQ.Shape == "raise_subquery" || exp.FQ.Shape == "raise_exists" {
			row, _ := trows[j].(map[string]any)
			if ns, _ := row["n"].([]any); len(ns) == 0 {
				continue
			}
		}
		switch exp.Mode {
		case "raise":
			q = strings.ReplaceAll(q, "%J%", fmt.Sprint(j+1))
			what = fmt.Sprintf("RAISE firing on row %d in %q", j+1, q)
		case "type_error":
			d, ok := corruptDoc(b.Case.Docs[0], exp.BadTable, j, exp.BadCol, exp.Nested, exp.Scalar)
			if !ok {
				continue
			}
			c.Docs = []json.RawMessage{d}
			what = fmt.Sprintf("type error in %s row %d column %s (nested=%v) in %q", exp.BadTable, j+1, exp.BadCol, exp.Nested, q)
		}
		c.Clients = []casefmt.Client{{Name: "client0", Ops: c19Ops(q, exp.FollowUp, false)}}
		o := r.Run(&c, false)
		if v := followUpHang(b, o, what); v != nil {
			vs = append(vs, v)
			continue
		}
		if hv := processHealth(b, o); len(hv) > 0 {
			r.Stats.probe("unhealthy_under_fault")
			continue
		}
		r.Stats.probe("data_fault_" + exp.Mode)
		if v := judgeFailed(b, o, &o.Ops[0], what); v != nil {
			vs = append(vs, v)
			continue
		}
		// follow-up on the same input, alone in a fresh process
		alone := c
		alone.Clients = []casefmt.Client{{Name: "client0", Ops: []casefmt.Op{{Doc: 0, Vars: -1, Query: exp.FollowUp}}}}
		oa := r.Run(&alone, false)
		if hv := processHealth(b, oa); len(hv) > 0 {
			continue
		}
		if opOutcome(&o.Ops[1]) != opOutcome(&oa.Ops[0]) || (opOutcome(&oa.Ops[0]) == "ok" && !rowsEqualMaybeOpen(o.Ops[1].Rows, oa.Ops[0].Rows, false)) {
			vs = append(vs, mkViolation(b, "FOLLOWUP_DIFFERS", posOf(b), fmt.Sprintf("%s\n follow-up %q after the failure: %s %s%s%s\n alone on an equal input: %s %s%s", what, exp.FollowUp, compact(o.Ops[1].Rows), o.Ops[1].NewErr, o.Ops[1].ExecErr, o.Ops[1].Panic, compact(oa.Ops[0].Rows), oa.Ops[0].NewErr, oa.Ops[0].ExecErr), o))
		}
	}
	return vs
}

// ---------------------------------------------------------------- generators

var c19RaiseTemplates = []struct{ q, shape string }{
	{"SELECT id, RAISE_WHEN(id = %J%, 'boom') FROM t", "raise_select"},
	{"SELECT id, CASE WHEN id = %J% THEN RAISE('boom') ELSE a END AS x FROM t", "raise_case"},
	{"SELECT * FROM (SELECT id, RAISE_WHEN(id = %J%, 'boom') FROM t) d", "raise_derived"},
	{"WITH c AS (SELECT id, RAISE_WHEN(id = %J%, 'boom') FROM t) SELECT * FROM c", "raise_cte"},
	{"SELECT id, (SELECT RAISE_WHEN(v >= 0, 'boom') FROM n) AS sub FROM t WHERE id = %J%", "raise_subquery"},
	{"SELECT id FROM t WHERE id = %J% AND EXISTS (SELECT RAISE('boom') FROM n)", "raise_exists"},
	{"SELECT id FROM u UNION ALL SELECT id, RAISE_WHEN(id = %J%, 'boom') FROM t", "raise_union"},
}

var c19TypeTemplates = []struct {
	q, shape, table, col string
	nested               bool
	scalar               bool
}{
	{"SELECT COUNT(*) AS c FROM t GROUP BY o.p", "type_group_key", "t", "o", false, true},
	{"SELECT s, COUNT(*) AS c FROM t GROUP BY s, o.q", "type_group_key2", "t", "o", false, true},
	{"SELECT id, o FROM t ORDER BY o.p", "type_order_key", "t", "o", false, true},
	{"SELECT * FROM t ORDER BY o.p DESC", "type_order_key2", "t", "o", false, true},
	{"SELECT * FROM (SELECT id, o FROM t ORDER BY o.p) d", "type_order_key_derived", "t", "o", false, true},
	{"SELECT id, o.p AS p FROM t", "type_select_path", "t", "o", false, true},
	{"SELECT id FROM t WHERE o.p >= 0", "type_where_path", "t", "o", false, true},
	{"SELECT id, a + 1 AS x FROM t", "type_select", "t", "a", false, false},
	{"SELECT id FROM t WHERE a + 1 > 5", "type_where", "t", "a", false, false},
	{"SELECT id FROM t WHERE NOT (a * 2 < 5) AND id > 0", "type_where_not", "t", "a", false, false},
	{"SELECT id, (SELECT v * 2 AS y FROM n) AS sub FROM t", "type_subquery", "t", "v", true, false},
	{"SELECT id FROM t WHERE EXISTS (SELECT v FROM n WHERE v + 1 > 0)", "type_exists", "t", "v", true, false},
	{"SELECT id FROM t WHERE id IN (SELECT v + 0 AS y FROM n)", "type_in_subquery", "t", "v", true, false},
	{"SELECT * FROM (SELECT id, a - 1 AS x FROM t) d", "type_derived", "t", "a", false, false},
	{"WITH c AS (SELECT id, -a AS x FROM t) SELECT * FROM c", "type_cte", "t", "a", false, false},
	{"SELECT id FROM u UNION ALL SELECT a % 7 AS id FROM t", "type_union", "t", "a", false, false},
	{"SELECT * FROM t x JOIN u y ON x.f AND y.g", "type_join_on", "t", "f", false, false},
	{"SELECT s, COUNT(*) AS c FROM t GROUP BY s HAVING SUM(a) + 1 > 0", "type_having_sum", "t", "a", false, false},
	{"SELECT id, CASE WHEN a + 0 > 10 THEN 'big' ELSE 'small' END AS x FROM t", "type_case_cond", "t", "a", false, false},
	{"SELECT id, CONCAT(s, SUBSTR(s, a, 1)) AS x FROM t", "type_function_arg", "t", "a", false, false},
}

// every arithmetic, bitwise and logical operator and the built-ins that need a particular kind of value,
// in the select list and in WHERE, over a column one row of which holds an object instead
func init() {
	add := func(name, e, col string, where string) {
		c19TypeTemplates = append(c19TypeTemplates, struct {
			q, shape, table, col string
			nested               bool
			scalar               bool
		}{fmt.Sprintf("SELECT id, %s AS x FROM t", e), "type_op_" + name, "t", col, false, false})
		if where != "" {
			c19TypeTemplates = append(c19TypeTemplates, struct {
				q, shape, table, col string
				nested               bool
				scalar               bool
			}{"SELECT id FROM t WHERE " + where, "type_op_" + name + "_where", "t", col, false, false})
		}
	}
	for _, o := range []struct{ name, e string }{{"neg", "-a"}, {"tilde", "~a"}, {"bitand", "a & 1"}, {"bitor", "a | 1"}, {"bitxor", "a ^ 1"}, {"shl", "a << 1"}, {"shr", "a >> 1"},
		{"div", "a DIV 2"}, {"fdiv", "a / 2"}, {"mul", "a * 2"}, {"sub_r", "1 - a"}, {"mod", "a % 3"}, {"add_l", "a + id"}, {"add_r", "id + a"}} {
		add(o.name, o.e, "a", o.e+" > -100000")
	}
	for _, o := range []struct{ name, e string }{{"not", "NOT f"}, {"bang", "!f"}, {"and", "f AND TRUE"}, {"or", "FALSE OR f"}, {"if", "IF(f, 1, 0)"}} {
		w := o.e
		if o.name == "if" {
			w = "IF(f, 1, 0) = 1"
		}
		add(o.name, o.e, "f", w)
	}
	// the same operators over a column *path* (o.p, o.b) one row of which cannot be walked (o is a scalar there):
	// the failure is the operand's read, which each operator has to hand on as well
	addPath := func(name, e, where string) {
		tpl := struct {
			q, shape, table, col string
			nested               bool
			scalar               bool
		}{fmt.Sprintf("SELECT id, %s AS x FROM t", e), "type_path_" + name, "t", "o", false, true}
		c19TypeTemplates = append(c19TypeTemplates, tpl)
		tpl.q, tpl.shape = "SELECT id FROM t WHERE "+where, "type_path_"+name+"_where"
		c19TypeTemplates = append(c19TypeTemplates, tpl)
	}
	for _, o := range []struct{ name, e string }{{"neg", "-o.p"}, {"tilde", "~o.p"}, {"bitand", "o.p & 1"}, {"shl", "o.p << 1"}, {"div", "o.p DIV 2"}, {"mul", "2 * o.p"}, {"add_r", "id + o.p"}} {
		addPath(o.name, o.e, o.e+" > -100000")
	}
	// (BETWEEN bounds are left out: the engine never reads a column given as a bound - it compares the printed
	// point with the bound's *name* - so no step fails there; that is a defect of BETWEEN itself, C01, not claimed)
	for _, o := range []struct{ name, e string }{{"not", "NOT o.b"}, {"and_l", "o.b AND TRUE"}, {"and_r", "TRUE AND o.b"}, {"or_l", "o.b OR FALSE"}, {"or_r", "FALSE OR o.b"}, {"if", "IF(o.b, 1, 0) = 1"},
		{"between_pt", "o.p BETWEEN 0 AND 100"}, {"in_l", "o.p IN (1, 2, 3)"}, {"in_elem", "2 IN (o.p, 7)"},
		{"not_in", "o.p NOT IN (9)"}, {"is_null", "o.p IS NULL"}, {"is_true", "o.b IS TRUE"}, {"like", "o.q LIKE 'k%'"}, {"cmp_l", "o.p >= 0"}, {"cmp_r", "0 <= o.p"},
		{"case_cond", "CASE WHEN o.b THEN TRUE ELSE TRUE END"}} {
		addPath(o.name, o.e, o.e)
	}
	for _, o := range []struct{ name, e string }{{"concat", "CONCAT('a', o.q)"}, {"array", "ARRAY(o.p, 1)"}, {"tuple", "(o.p, 1)"}, {"case_then", "CASE WHEN id > 0 THEN o.p ELSE 0 END"},
		{"if_then", "IF(id > 0, o.p, 0)"}, {"hash", "HASH(o.q, 'md5')"}, {"async_arg", "ASYNC.fx(9, o.p)"}, {"substr", "SUBSTR(o.q, 0, 1)"}} {
		addPath(o.name, o.e, o.e+" IS NOT NULL")
	}
	add("to_upper", "TO_UPPER(s)", "s", "TO_UPPER(s) = 'X'")
	add("first", "FIRST(tags)", "tags", "")
	add("last", "LAST(tags)", "tags", "")
	add("unwind", "UNWIND(tags)", "tags", "")
}

// queries that fail for a reason that is neither a stub fault nor data: an
// unparsable selector text, an unknown function, a malformed path. The failed
// query must not leave anything behind (a held lock, a poisoned cache entry).
var c19StaticErrorQueries = []string{
	"SELECT id, `tags[(0:1:2)]` AS x FROM t",
	"SELECT id FROM t WHERE `tags[first]` = 1",
	"SELECT id, `n[(1:`  AS x FROM t",
	"SELECT id FROM `t[(a:b)]`",
	"SELECT id, (SELECT `v[zz]` AS y FROM n) AS sub FROM t",
	"WITH c AS (SELECT `tags[last]` AS x FROM t) SELECT * FROM c",
	"SELECT id FROM t WHERE EXISTS (SELECT `w[(0:1:2)]` FROM n)",
	"SELECT id, nosuchfunction(a) AS x FROM t",
	"SELECT id FROM t WHERE s LIKE '(%'",
	"SELECT id, CASE WHEN s LIKE '[%' THEN 1 ELSE 0 END AS x FROM t",
	"SELECT id, (SELECT w FROM n WHERE w LIKE '(%') AS sub FROM t WHERE id IN (SELECT id FROM t)",
	"SELECT s, COUNT(*) AS c FROM t GROUP BY s HAVING nosuchfunction(1) = 1",
	"SELECT id FROM t WHERE a BETWEEN 1 AND nosuchfunction(2)",
	"SELECT id FROM t WHERE id IN (1, nosuchfunction(2))",
	"SELECT * FROM t x JOIN u y ON x.`id[first]` = y.id",
	"SELECT * FROM (SELECT id, nosuchfunction(a) AS x FROM t) d",
	"WITH c AS (SELECT id, nosuchfunction(a) AS x FROM t) SELECT * FROM c",
	"SELECT id FROM u UNION ALL SELECT nosuchfunction(id) AS id FROM t",
	"SELECT id, CASE WHEN id > 0 THEN nosuchfunction(a) ELSE 0 END AS x FROM t",
	"SELECT id, 1 + nosuchfunction(a) AS x FROM t",
	"SELECT id, ASYNC.nosuchfunction(a) AS x FROM t",
	"SELECT id, ASYNC.fx(1, nosuchfunction(a)) AS x FROM t",
	"SELECT id, ASYNC.RAISE_WHEN(id = 1, 'boom') FROM t",
	"SELECT id, Async.Raise_When(id = 1, 'boom') FROM t",
	"SELECT id, SPIN.RAISE('boom') FROM t",
	"SELECT id, SpinAsync.Raise('boom') FROM t",
	"SELECT id, async.raise_when(id = 1, 'boom') FROM t",
	"SELECT s, COUNT(*) AS c FROM t GROUP BY s, id + 0",
	"SELECT s, COUNT(*) AS c FROM t GROUP BY RAISE('boom')",
	"SELECT id, AWAIT(RAISE('boom')) AS x FROM t",
	"SELECT id, AWAIT(AWAIT(RAISE('boom'))) AS x FROM t",
	"SELECT id, AWAIT((SELECT AWAIT(RAISE('boom')) AS y FROM dual)) AS x FROM t",
	"SELECT * FROM (SELECT id, AWAIT(RAISE('boom')) AS x FROM t) d",
	"SELECT x.x AS x FROM (SELECT AWAIT(RAISE('boom')) AS x, id FROM t) x LEFT JOIN u y ON x.id = y.id",
	"SELECT id, (SELECT AWAIT(RAISE('boom')) AS y FROM dual) AS sub FROM t",
	"SELECT id, a FROM t ORDER BY a + 1",
	"SELECT id, (SELECT id FROM `<-t` ORDER BY a + 1) AS sub FROM t",
}

// c19CertainFailures: statically failing queries whose failing step is certain to be evaluated whenever t has a row
// (an unknown function or an unparsable selector in the select list, WHERE, HAVING, a CTE body, a derived table, a
// union branch or the argument of a background call): for these a success is a swallowed error
var c19CertainFailures = map[string]bool{
	"SELECT id, `tags[(0:1:2)]` AS x FROM t":                                    true,
	"SELECT id, nosuchfunction(a) AS x FROM t":                                  true,
	"SELECT s, COUNT(*) AS c FROM t GROUP BY s HAVING nosuchfunction(1) = 1":    true,
	"SELECT id FROM t WHERE a BETWEEN 1 AND nosuchfunction(2)":                  true,
	"SELECT id FROM t WHERE id IN (1, nosuchfunction(2))":                       true,
	"SELECT * FROM (SELECT id, nosuchfunction(a) AS x FROM t) d":                true,
	"WITH c AS (SELECT id, nosuchfunction(a) AS x FROM t) SELECT * FROM c":      true,
	"SELECT id FROM u UNION ALL SELECT nosuchfunction(id) AS id FROM t":         true,
	"SELECT id, CASE WHEN id > 0 THEN nosuchfunction(a) ELSE 0 END AS x FROM t": true,
	"SELECT id, 1 + nosuchfunction(a) AS x FROM t":                              true,
	"SELECT id, ASYNC.nosuchfunction(a) AS x FROM t":                            true,
	"SELECT id, ASYNC.fx(1, nosuchfunction(a)) AS x FROM t":                     true,
	// RAISE cannot be detached from the query: however the qualifier and the name are spelled, the
	// query fails (by refusing the qualifier or by raising), it never reports the error to the side
	// a grouping expression that is no column is a type error of the GROUP BY clause
	"SELECT s, COUNT(*) AS c FROM t GROUP BY s, id + 0":     true,
	"SELECT s, COUNT(*) AS c FROM t GROUP BY RAISE('boom')": true,
	// AWAIT defers its argument, it does not detach its failure: at any depth, in any nested query
	"SELECT id, AWAIT(RAISE('boom')) AS x FROM t":                                                       true,
	"SELECT id, AWAIT(AWAIT(RAISE('boom'))) AS x FROM t":                                                true,
	"SELECT id, AWAIT((SELECT AWAIT(RAISE('boom')) AS y FROM dual)) AS x FROM t":                        true,
	"SELECT * FROM (SELECT id, AWAIT(RAISE('boom')) AS x FROM t) d":                                     true,
	"SELECT x.x AS x FROM (SELECT AWAIT(RAISE('boom')) AS x, id FROM t) x LEFT JOIN u y ON x.id = y.id": true,
	"SELECT id, (SELECT AWAIT(RAISE('boom')) AS y FROM dual) AS sub FROM t":                             true,
	"SELECT id, ASYNC.RAISE_WHEN(id = 1, 'boom') FROM t":                                                true,
	"SELECT id, Async.Raise_When(id = 1, 'boom') FROM t":                                                true,
	"SELECT id, SPIN.RAISE('boom') FROM t":                                                              true,
	"SELECT id, SpinAsync.Raise('boom') FROM t":                                                         true,
	"SELECT id, async.raise_when(id = 1, 'boom') FROM t":                                                true,
}

func evalC19Static(b *Bundle, r *Runner, exp *c19Expect) []*Violation {
	c := b.Case
	c.Clients = []casefmt.Client{{Name: "client0", Ops: c19Ops(exp.FQ.Query, exp.FollowUp, true)}}
	o := r.Run(&c, false)
	what := fmt.Sprintf("statically failing query %q", exp.FQ.Query)
	if v := followUpHang(b, o, what); v != nil {
		return []*Violation{v}
	}
	if hv := processHealth(b, o); len(hv) > 0 {
		r.Stats.probe("unhealthy_under_fault")
		return nil
	}
	if !failed(&o.Ops[0]) && o.Ops[0].Panic == "" {
		if c19CertainFailures[exp.FQ.Query] {
			return []*Violation{mkViolation(b, "ERROR_SWALLOWED", "shape:static_error", fmt.Sprintf("%s: New/Exec reported success; rows=%s", what, compact(o.Ops[0].Rows)), o)}
		}
		r.Stats.probe("static_error_query_succeeded_skipped")
		return nil
	}
	if c19CertainFailures[exp.FQ.Query] {
		if v := judgeFailed(b, o, &o.Ops[0], what); v != nil {
			return []*Violation{v}
		}
		r.Stats.probe("static_error_certain_failure_judged")
	}
	r.Stats.probe("static_error_fault")
	alone := c
	alone.Clients = []casefmt.Client{{Name: "client0", Ops: []casefmt.Op{{Doc: 0, Vars: -1, Query: exp.FollowUp}}}}
	oa := r.Run(&alone, false)
	if len(processHealth(b, oa)) > 0 {
		return nil
	}
	if opOutcome(&o.Ops[1]) != opOutcome(&oa.Ops[0]) || (opOutcome(&oa.Ops[0]) == "ok" && !rowsEqualMaybeOpen(o.Ops[1].Rows, oa.Ops[0].Rows, false)) {
		return []*Violation{mkViolation(b, "FOLLOWUP_DIFFERS", posOf(b), fmt.Sprintf("%s\n follow-up %q after the failure: %s %s%s%s\n alone on an equal input: %s %s%s", what, exp.FollowUp, compact(o.Ops[1].Rows), o.Ops[1].NewErr, o.Ops[1].ExecErr, o.Ops[1].Panic, compact(oa.Ops[0].Rows), oa.Ops[0].NewErr, oa.Ops[0].ExecErr), o)}
	}
	if opOutcome(&o.Ops[2]) != opOutcome(&o.Ops[0]) {
		return []*Violation{mkViolation(b, "REPEAT_DIFFERS", posOf(b), fmt.Sprintf("%s: first attempt %s, second attempt in the same process %s", what, opOutcome(&o.Ops[0]), opOutcome(&o.Ops[2])), o)}
	}
	return nil
}

// followUpHang: the failed query returned, but a later query in the same
// process never did (deadlock or livelock): the library did not stay usable.
func followUpHang(b *Bundle, o *casefmt.Obs, what string) *Violation {
	if o.Fatal != "" || (o.Sim.Outcome != "deadlock" && o.Sim.Outcome != "step_budget") {
		return nil
	}
	if len(o.Ops) < 2 || !o.Ops[0].Returned || (!failed(&o.Ops[0]) && o.Ops[0].Panic == "") {
		return nil
	}
	for i := 1; i < len(o.Ops); i++ {
		if o.Ops[i].Started && !o.Ops[i].Returned {
			var who []string
			for _, t := range o.Sim.Tasks {
				if t.State == "blocked" {
					who = append(who, fmt.Sprintf("task %d (%s) on %s", t.ID, t.Name, t.BlockedOn))
				}
			}
			return mkViolation(b, "FOLLOWUP_HANGS", posOf(b), fmt.Sprintf("%s reported its failure (%s%s%s), but the next query on the same input never returned (%s): %s", what, o.Ops[0].NewErr, o.Ops[0].ExecErr, o.Ops[0].Panic, o.Sim.Outcome, strings.Join(who, "; ")), o)
		}
	}
	return nil
}

func genC19(t *rapid.T) *Bundle {
	doc := faultDoc(t)
	mode := rapid.SampledFrom([]string{"stub", "stub", "stub", "raise", "type_error", "type_error", "static_error"}).Draw(t, "mode")
	follow := rapid.SampledFrom(followUps).Draw(t, "follow")
	sim := casefmt.SimConfig{Strategy: "np", MapPolicy: rapid.SampledFrom([]string{"sorted", "reverse", "random"}).Draw(t, "map_policy"), MapSeed: uint64(rapid.IntRange(0, 1000).Draw(t, "map_seed"))}
	exp := c19Expect{Mode: mode, FollowUp: follow}
	nrows := len(doc["t"].([]any))
	switch mode {
	case "stub":
		exp.FQ = genFaultQuery(t)
	case "raise":
		tpl := rapid.SampledFrom(c19RaiseTemplates).Draw(t, "raise_tpl")
		exp.FQ = faultQuery{Query: tpl.q, Shape: tpl.shape}
		exp.NRows = nrows
	case "type_error":
		tpl := rapid.SampledFrom(c19TypeTemplates).Draw(t, "type_tpl")
		exp.FQ = faultQuery{Query: tpl.q, Shape: tpl.shape}
		exp.NRows = nrows
		exp.BadTable, exp.BadCol, exp.Nested, exp.Scalar = tpl.table, tpl.col, tpl.nested, tpl.scalar
	case "static_error":
		tpl := rapid.SampledFrom(c19StaticErrorQueries).Draw(t, "static_tpl")
		exp.FQ = faultQuery{Query: tpl, Shape: "static_error"}
	}
	c := oneClientCase("C19", sim, doc, casefmt.Op{Doc: 0, Vars: -1, Query: exp.FQ.Query})
	tags := []string{"mode:" + mode, "shape:" + exp.FQ.Shape}
	for _, p := range exp.FQ.Positions {
		tags = append(tags, "pos:"+p)
	}
	return &Bundle{Prop: "C19", Kind: mode, Case: c, Expect: mustJSON(exp), Tags: tags}
}

// corpusC19 places a fault in every clause position on a fixed document; with
// the enumeration over k in Eval this part is exhaustive.
func corpusC19() []*Bundle {
	doc := map[string]any{
		"t": []any{
			map[string]any{"id": 1.0, "a": 10.0, "s": "x", "f": true, "n": []any{map[string]any{"v": 1.0, "w": "p"}, map[string]any{"v": 2.0, "w": "q"}}, "o": map[string]any{"p": 1.0, "q": "k", "b": true}, "tags": []any{"x", "y"}},
			map[string]any{"id": 2.0, "a": 20.0, "s": "xy", "f": false, "n": []any{map[string]any{"v": 3.0, "w": "p"}}, "o": map[string]any{"p": 2.0, "q": "m", "b": false}, "tags": []any{"y"}},
			map[string]any{"id": 3.0, "a": 30.0, "s": "x", "f": true, "n": []any{}, "o": map[string]any{"p": 1.0, "q": "k", "b": true}, "tags": []any{}},
		},
		"u":    []any{map[string]any{"id": 1.0, "b": "k", "g": true}, map[string]any{"id": 3.0, "b": "m", "g": false}},
		"meta": map[string]any{"ip": "10.0.0.1"},
	}
	stub := []struct{ q, pos string }{
		{"SELECT id FROM t WHERE fid(1, a) >= 10", "where"},
		{"SELECT id, fid(1, a) AS x FROM t", "select"},
		{"SELECT id, CONCAT(fid(1, s), '-') AS x FROM t", "function_argument"},
		{"SELECT id, CASE WHEN a >= 20 THEN fid(1, a) ELSE fid(2, id) END AS x FROM t", "case_branch"},
		{"SELECT s, COUNT(*) AS c FROM t GROUP BY s HAVING fid(1, 1) = 1", "having"},
		{"WITH c AS (SELECT id, fid(1, a) AS x FROM t) SELECT * FROM c", "cte_body"},
		{"WITH c1 AS (SELECT id, fid(1, a) AS x FROM t), c2 AS (SELECT * FROM c1) SELECT * FROM c2", "cte_chain"},
		{"SELECT * FROM (SELECT id, fid(1, a) AS x FROM t) d", "derived_table"},
		{"SELECT id, (SELECT fid(1, v) AS y FROM n) AS sub FROM t", "row_scoped_subquery"},
		{"SELECT id FROM t WHERE id IN (SELECT fid(1, v) AS y FROM n)", "in_subquery"},
		{"SELECT id FROM t WHERE EXISTS (SELECT v FROM n WHERE fid(1, v) >= 1)", "exists_subquery"},
		{"SELECT id, fid(1, a) AS x FROM t UNION ALL SELECT id, fid(2, b) AS x FROM u", "union_branch"},
		{"SELECT * FROM t x JOIN u y ON x.id = y.id WHERE fid(1, x.a) >= 10", "where_over_join"},
		{"SELECT id, a + fid(1, id) AS x FROM t", "arithmetic_operand"},
		{"SELECT DISTINCT s, fid(1, s) AS x FROM t ORDER BY s DESC LIMIT 2", "distinct_order_limit"},
		{"SELECT id, (SELECT fid(1, ip) AS ip FROM `<-meta`) AS m FROM t", "backref_subquery"},
		{"SELECT id, (SELECT fid(1, v) AS y FROM n WHERE fid(2, v) >= 2) AS sub FROM t WHERE fid(3, a) > 0", "nested_mixed"},
		// deferred work (an awaited call per row) registered by the rows before the one that fails
		{"SELECT id, AWAIT(fid(1, a)) AS n, fid(2, id) AS b FROM t", "awaited_beside_plain"},
		{"SELECT id, (SELECT AWAIT(fid(1, v)) AS y FROM n) AS sub, fid(2, id) AS b FROM t", "awaited_in_subquery_beside_plain"},
	}
	var out []*Bundle
	mkCase := func(q string) casefmt.Case {
		return oneClientCase("C19", casefmt.SimConfig{Strategy: "np", MapPolicy: "sorted"}, doc, casefmt.Op{Doc: 0, Vars: -1, Query: q})
	}
	for i, s := range stub {
		var sites []int
		var pos []string
		for k := 1; k <= 3; k++ {
			if strings.Contains(s.q, fmt.Sprintf("fid(%d,", k)) {
				sites = append(sites, k)
				pos = append(pos, s.pos)
			}
		}
		exp := c19Expect{Mode: "stub", FollowUp: followUps[i%len(followUps)], FQ: faultQuery{Query: s.q, Sites: sites, Shape: "corpus_" + s.pos, Positions: pos, OrderOpen: strings.Contains(s.q, "GROUP") || strings.Contains(s.q, "JOIN")}}
		out = append(out, &Bundle{Prop: "C19", Kind: "corpus", Case: mkCase(s.q), Expect: mustJSON(exp), Tags: []string{"corpus", "mode:stub", "shape:corpus_" + s.pos, "pos:" + s.pos}})
	}
	// every expression context x {select list, WHERE, HAVING, derived table}: the operator, predicate, CASE arm or
	// built-in the failing call sits under must hand its failure on
	n := 0
	addCtx := func(q, pos string) {
		n++
		exp := c19Expect{Mode: "stub", FollowUp: followUps[n%len(followUps)], FQ: faultQuery{Query: q, Sites: []int{1}, Shape: "corpus_" + pos, Positions: []string{pos}, OrderOpen: strings.Contains(q, "GROUP")}}
		out = append(out, &Bundle{Prop: "C19", Kind: "corpus", Case: mkCase(q), Expect: mustJSON(exp), Tags: []string{"corpus", "mode:stub", "shape:corpus_" + pos, "pos:" + pos}})
	}
	for _, c := range exprContexts {
		col := ctxColumn(c.arg, func(xs []string) string { return xs[0] })
		e := c.ctxSQL("", 1, 9, col)
		pos := "under_" + c.name
		if strings.HasPrefix(c.tpl, "SPIN") {
			addCtx(fmt.Sprintf("SELECT id, %s FROM t", e), pos)
			continue
		}
		addCtx(fmt.Sprintf("SELECT id, %s AS x FROM t", e), pos)
		addCtx(fmt.Sprintf("SELECT * FROM (SELECT id, %s AS x FROM t) d", e), pos+"_in_derived_table")
		addCtx(fmt.Sprintf("SELECT id, (SELECT %s AS y FROM n) AS sub FROM t", c.ctxSQL("", 1, 9, map[string]string{"num": "v", "str": "w", "bool": "v"}[c.arg])), pos+"_in_subquery")
		if c.boolean {
			addCtx(fmt.Sprintf("SELECT id FROM t WHERE %s", e), pos+"_in_where")
			if c.arg == "num" {
				addCtx(fmt.Sprintf("SELECT s, COUNT(*) AS c FROM t GROUP BY s HAVING %s", c.ctxSQL("", 1, 9, "COUNT(*)")), pos+"_in_having")
			}
		}
	}
	for i, q := range c19StaticErrorQueries {
		exp := c19Expect{Mode: "static_error", FollowUp: followUps[i%len(followUps)], FQ: faultQuery{Query: q, Shape: "static_error"}}
		out = append(out, &Bundle{Prop: "C19", Kind: "corpus", Case: mkCase(q), Expect: mustJSON(exp), Tags: []string{"corpus", "mode:static_error", "shape:static_error"}})
	}
	for i, tpl := range c19RaiseTemplates {
		exp := c19Expect{Mode: "raise", FollowUp: followUps[i%len(followUps)], FQ: faultQuery{Query: tpl.q, Shape: tpl.shape}, NRows: 3}
		out = append(out, &Bundle{Prop: "C19", Kind: "corpus", Case: mkCase(tpl.q), Expect: mustJSON(exp), Tags: []string{"corpus", "mode:raise", "shape:" + tpl.shape}})
	}
	for i, tpl := range c19TypeTemplates {
		exp := c19Expect{Mode: "type_error", FollowUp: followUps[i%len(followUps)], FQ: faultQuery{Query: tpl.q, Shape: tpl.shape}, NRows: 3, BadTable: tpl.table, BadCol: tpl.col, Nested: tpl.nested, Scalar: tpl.scalar}
		out = append(out, &Bundle{Prop: "C19", Kind: "corpus", Case: mkCase(tpl.q), Expect: mustJSON(exp), Tags: []string{"corpus", "mode:type_error", "shape:" + tpl.shape}})
	}
	return out
}

func init() {
	register(&Property{
		ID: "C19", Plain: true, Level: "fault_enumeration",
		Rule:   "fixed corpus: a fault-injecting identity stub / RAISE / RAISE_WHEN / a wrongly-typed value in every synchronously evaluated clause position (WHERE, select list, function argument, CASE, HAVING, CTE body and chain, derived table, row-scoped subquery, IN subquery, EXISTS, union branch, join ON, arithmetic, DISTINCT/ORDER/LIMIT) x EVERY invocation index k = 1..N (N measured by a fault-free run) resp. every row j — exhaustive for the corpus; plus rapid-generated queries (1-4 fault sites) again exhaustive in k per query; each faulted run is [failing query, follow-up query, fault-free repeat] in one process; non-trivial = a fault actually fired; distinct = distinct case-file hash; the corpus also nests the failing call under each of 60 expression contexts (every arithmetic/bitwise/shift/comparison/logical operator on either side, BETWEEN point and bounds, IN/NOT IN value and element, IS, LIKE value and pattern, CASE condition/THEN/ELSE/second WHEN, IF arms, built-ins, tuple, SCOPED qualifier, argument of an ASYNC/SPINASYNC call) x {select list, derived table, row-scoped subquery, WHERE, HAVING} and a wrongly typed operand under every operator; statically failing queries whose failing step is certain to be evaluated (unknown function / unparsable selector in the select list, WHERE, HAVING, CTE, derived table, union branch, CASE arm, argument of a background call) must fail; after each injected failure Exec is called again on the same Query (no fault): fault-free rows, and a number of invocations between a second Exec after a success and a whole fresh evaluation; one run per site with a persistent fault (every invocation fails): a failed first Exec is followed by a failing second one; awaited calls beside the failing call and AWAIT in a join's ON among the shapes",
		Corpus: corpusC19, Gen: genC19, Eval: evalC19, QuickChecks: 150,
		Assumptions: []string{
			"faults enter through the user-function seam (error return at the k-th call), RAISE/RAISE_WHEN and wrongly typed data; ASYNC/SPIN-qualified calls are excluded (the statement is about synchronous steps)",
			"a panic crossing the API under a fault is C10's finding and is not double-reported here",
			"invocations the engine never reaches are not in 1..N, so short-circuiting is not penalised",
		},
		Components: map[string][]string{
			"real": {"genql (instrumented copy of /repo working tree)", "sqlparser", "compare", "Go runtime"},
			"stub": {"user function fid (identity, fault-injecting)", "goroutine scheduler (zzsim)", "clock (zzsim)"},
		},
	})
}
