package main

import (
	"encoding/json"
	"fmt"
	"reflect"
	"sort"
	"strings"

	"pgregory.net/rapid"

	"verif/casefmt"
)

// drawSim draws the schedule / map-order half of a case. Everything the
// simulator decides derives from these fields.
func drawSim(t *rapid.T, label string) casefmt.SimConfig {
	var c casefmt.SimConfig
	c.Strategy = rapid.SampledFrom([]string{"np", "walk", "pct", "sync"}).Draw(t, label+"strategy")
	c.Seed = uint64(rapid.IntRange(0, 1<<20).Draw(t, label+"sched_seed"))
	switch c.Strategy {
	case "walk":
		c.WalkP = rapid.SampledFrom([]float64{0.01, 0.1, 0.5}).Draw(t, label+"walk_p")
	case "pct":
		n := rapid.IntRange(0, 3).Draw(t, label+"pct_depth")
		for i := 0; i < n; i++ {
			c.ChangePoints = append(c.ChangePoints, int64(rapid.IntRange(0, 4000).Draw(t, label+"change_point")))
		}
		sort.Slice(c.ChangePoints, func(i, j int) bool { return c.ChangePoints[i] < c.ChangePoints[j] })
	}
	c.MapPolicy = rapid.SampledFrom([]string{"sorted", "reverse", "rotate", "random", "mixed"}).Draw(t, label+"map_policy")
	if c.MapPolicy != "sorted" && c.MapPolicy != "reverse" {
		c.MapSeed = uint64(rapid.IntRange(0, 1<<16).Draw(t, label+"map_seed"))
	}
	return c
}

var latencyChoices = []int64{0, 1000, 1000000, 50000000, 1000000000, 60000000000}

// drawLatencies draws a latency pattern for the given stub sites: zero,
// uniform, random per call, or skewed (one straggler).
func drawLatencies(t *rapid.T, sites []int, maxCalls int) []casefmt.LatRule {
	var rules []casefmt.LatRule
	pattern := rapid.SampledFrom([]string{"zero", "uniform", "random", "first_slowest", "last_slowest", "straggler"}).Draw(t, "lat_pattern")
	if pattern == "zero" || len(sites) == 0 {
		return nil
	}
	for _, id := range sites {
		switch pattern {
		case "uniform":
			rules = append(rules, casefmt.LatRule{ID: id, Call: -1, Ns: rapid.SampledFrom(latencyChoices).Draw(t, "lat")})
		case "random":
			for c := 0; c < maxCalls; c++ {
				rules = append(rules, casefmt.LatRule{ID: id, Call: c, Ns: rapid.SampledFrom(latencyChoices).Draw(t, "lat")})
			}
		case "first_slowest":
			rules = append(rules, casefmt.LatRule{ID: id, Call: 0, Ns: 60000000000}, casefmt.LatRule{ID: id, Call: -1, Ns: 1000})
		case "last_slowest":
			rules = append(rules, casefmt.LatRule{ID: id, Call: maxCalls - 1, Ns: 60000000000}, casefmt.LatRule{ID: id, Call: -1, Ns: 1000})
		case "straggler":
			k := rapid.IntRange(0, maxCalls-1).Draw(t, "straggler")
			rules = append(rules, casefmt.LatRule{ID: id, Call: k, Ns: 1000000000}, casefmt.LatRule{ID: id, Call: -1, Ns: 0})
		}
	}
	return rules
}

// stubValue mirrors the harness stubs' return value.
func stubValue(stub string, id int, x any) any {
	if stub != "fx" {
		return x
	}
	switch v := x.(type) {
	case float64:
		return v + 1000*float64(id)
	case int:
		return float64(v) + 1000*float64(id)
	case string:
		return fmt.Sprintf("fx%d:%s", id, v)
	}
	return x
}

// argText mirrors the harness's rendering of a stub argument in the call log.
func argText(x any) string {
	switch v := x.(type) {
	case nil:
		return "null"
	case string:
		return "s:" + v
	case float64:
		return fmt.Sprintf("n:%v", v)
	case int:
		return fmt.Sprintf("n:%v", v)
	case bool:
		return fmt.Sprintf("b:%v", v)
	}
	return fmt.Sprintf("%T", x)
}

// sqlLit renders a scalar as a SQL literal.
func sqlLit(x any) string {
	switch v := x.(type) {
	case nil:
		return "NULL"
	case string:
		return "'" + strings.ReplaceAll(v, "'", "''") + "'"
	case float64:
		return trimFloat(v)
	case int:
		return fmt.Sprint(v)
	case bool:
		if v {
			return "TRUE"
		}
		return "FALSE"
	}
	return fmt.Sprint(x)
}

func trimFloat(f float64) string {
	s := fmt.Sprintf("%v", f)
	return s
}

// normJSON decodes canonical JSON into comparable Go values.
func normJSON(raw json.RawMessage) any {
	if len(raw) == 0 {
		return nil
	}
	var v any
	if err := json.Unmarshal(raw, &v); err != nil {
		return fmt.Sprintf("<bad json: %v>", err)
	}
	return v
}

func roundTrip(v any) any {
	b, err := json.Marshal(v)
	if err != nil {
		return fmt.Sprintf("<unencodable: %v>", err)
	}
	var out any
	json.Unmarshal(b, &out)
	return out
}

// normZero turns the negative zero into zero (they are equal numbers; a harness building Go ints drops the sign)
func normZero(v any) any {
	switch x := v.(type) {
	case float64:
		if x == 0 {
			return float64(0)
		}
	case []any:
		for i := range x {
			x[i] = normZero(x[i])
		}
	case map[string]any:
		for k := range x {
			x[k] = normZero(x[k])
		}
	}
	return v
}

func jsonEqual(a, b any) bool { return reflect.DeepEqual(roundTrip(a), roundTrip(b)) }

// canonText renders a value with sorted keys (for multiset comparison).
func canonText(v any) string {
	b, _ := json.Marshal(normZero(roundTrip(v)))
	return string(b)
}

// multisetEqual compares two arrays of rows ignoring order.
func multisetEqual(a, b []any) bool {
	if len(a) != len(b) {
		return false
	}
	as := make([]string, len(a))
	bs := make([]string, len(b))
	for i := range a {
		as[i] = canonText(a[i])
		bs[i] = canonText(b[i])
	}
	sort.Strings(as)
	sort.Strings(bs)
	for i := range as {
		if as[i] != bs[i] {
			return false
		}
	}
	return true
}

func asArray(v any) ([]any, bool) {
	if v == nil {
		return []any{}, true
	}
	a, ok := v.([]any)
	return a, ok
}

func rawDoc(v any) json.RawMessage { return mustJSON(v) }

func oneClientCase(prop string, sim casefmt.SimConfig, doc any, ops ...casefmt.Op) casefmt.Case {
	return casefmt.Case{Prop: prop, Sim: sim, Docs: []json.RawMessage{rawDoc(doc)}, Clients: []casefmt.Client{{Name: "client0", Ops: ops}}}
}
