package main

import (
	"encoding/json"
	"fmt"
	"sort"
	"strings"

	"pgregory.net/rapid"

	"verif/casefmt"
)

// C14 — function execution strategies change timing, never results.

type c14Item struct {
	Kind   string `json:"kind"` // col | plain | async | spin | spinasync | once | immq
	Stub   string `json:"stub"` // fx | fid | imm
	Site   int    `json:"site"`
	Arg    string `json:"arg"`   // column used as argument
	Alias  string `json:"alias"` // output column
	Qual   string `json:"qual"`  // for immq: ASYNC|SPIN|SPINASYNC
	Const  any    `json:"const,omitempty"`
	Dup    bool   `json:"dup,omitempty"` // a later ONCE call of a function that already has one in this query
	IsCons bool   `json:"is_const,omitempty"`
}

type c14Site struct {
	ID   int      `json:"id"`
	Kind string   `json:"kind"`
	Args []string `json:"args"` // expected multiset of call arguments
}

type c14Expect struct {
	Error bool      `json:"error"`
	Rows  []any     `json:"rows"`
	Sites []c14Site `json:"sites"`
	Place string    `json:"place"`
	// CompletionOnly: only the completion-before-return clauses are decided (UNION results are
	// broken on this tree - C06, not claimed - and EXISTS may stop evaluating early)
	CompletionOnly bool `json:"completion_only,omitempty"`
	// differential cases: Template holds %Q% where the qualifier goes; the qualified query must return what the
	// unqualified one returns (as a multiset when Multiset), also on a second Exec of the same Query (Twice)
	Template string `json:"template,omitempty"`
	Qual     string `json:"qual,omitempty"`
	Multiset bool   `json:"multiset,omitempty"`
	Twice    bool   `json:"twice,omitempty"`
	// failing_calls: the number of invocations the query makes (rows x call sites)
	NRows int `json:"n_rows,omitempty"`
}

// c14Differential: shapes in which the column an ASYNC call fills is consumed by a later stage of the same
// statement (DISTINCT, ORDER BY, a join over a derived table, FUSE, AWAIT over a nested select, LIMIT, a second
// Exec). "Qualifying a call with ASYNC changes when it runs, not what the query returns": the qualified query is
// compared with the same query without the qualifier.
var c14Differential = []struct {
	tpl      string
	multiset bool
}{
	{"SELECT DISTINCT %Q%fx(1, a) AS v FROM t", true},
	{"SELECT DISTINCT s, %Q%fx(1, a) AS v FROM t", true},
	{"SELECT id, %Q%fx(1, a) AS v FROM t ORDER BY v DESC, id", false},
	{"SELECT id, %Q%fx(1, a) AS v FROM t ORDER BY v, id DESC", false},
	{"SELECT * FROM (SELECT id, %Q%fx(1, a) AS v FROM t) x JOIN k y ON x.id = y.id", true},
	{"SELECT x.v AS v, y.id AS id FROM (SELECT id, %Q%fx(1, a) AS v FROM t) x LEFT JOIN k y ON x.id = y.id", true},
	{"SELECT * FROM k y JOIN (SELECT id, %Q%fx(1, a) AS v FROM t) x ON x.id = y.id", true},
	{"SELECT id, FUSE((SELECT %Q%fx(1, a) AS v FROM dual)) FROM t", false},
	{"SELECT id, FUSE((SELECT %Q%fx(1, a) AS v FROM dual)) AS p FROM t", false},
	{"SELECT id, AWAIT((SELECT %Q%fx(1, a) AS v FROM dual)) AS x FROM t", false},
	{"SELECT id, AWAIT(%Q%fx(1, a)) AS v FROM t", false},
	{"SELECT id, (SELECT v, %Q%fx(1, v) AS av FROM n) AS sub FROM t", false},
	{"SELECT id, %Q%fx(1, a) AS v FROM t LIMIT 2", false},
	{"SELECT id, %Q%fx(1, a) AS v FROM t WHERE a >= 10", false},
	{"WITH c AS (SELECT id, %Q%fx(1, a) AS v FROM t) SELECT DISTINCT v FROM c", true},
	{"WITH c AS (SELECT id, %Q%fx(1, a) AS v FROM t) SELECT id, v FROM c ORDER BY v DESC, id", false},
	{"SELECT * FROM (SELECT DISTINCT %Q%fx(1, a) AS v FROM t) d", true},
	// the outer query's own clauses read the column of a derived table
	{"SELECT d.v AS v FROM (SELECT id, %Q%fx(1, a) AS v FROM t) d WHERE d.v > 1005", false},
	{"SELECT SUM(d.v) AS s, COUNT(*) AS c FROM (SELECT %Q%fx(1, a) AS v FROM t) d", false},
	{"SELECT d.v AS v, COUNT(*) AS c FROM (SELECT %Q%fx(1, a) AS v FROM t) d GROUP BY d.v", false},
	{"SELECT d.id AS id FROM (SELECT id, %Q%fx(1, a) AS v FROM t) d WHERE d.v IN (1000, 1020)", false},
	{"WITH c AS (SELECT id, %Q%fx(1, a) AS v FROM t) SELECT id FROM c WHERE v >= 1010", false},
	{"WITH c AS (SELECT %Q%fx(1, a) AS v FROM t) SELECT v, COUNT(*) AS n FROM c GROUP BY v", false},
	// the fused row holds the slot of an AWAIT around the call's own slot
	{"SELECT id, FUSE((SELECT AWAIT(%Q%fx(1, a)) AS v FROM dual)) FROM t", false},
	{"SELECT id, FUSE((SELECT AWAIT(%Q%fx(1, a)) AS v, id AS w FROM dual)) AS p FROM t", false},
	// a later item - `*`, a FUSE - brings a column of the name the call's item was given: the later one wins
	{"SELECT %Q%fx(1, a) AS a, * FROM t", false},
	{"SELECT id, %Q%fx(1, a) AS s, FUSE((SELECT s FROM dual)) FROM t", false},
	{"SELECT id, AWAIT(%Q%fx(1, a)) AS a, * FROM t", false},
}

// genC14FailingRow: a synchronous step fails on some row while ASYNC/SPINASYNC calls of earlier rows (and items) are
// in flight. Exec reports the failure - and by then every call it started has completed: "once Exec returns".
func genC14FailingRow(t *rapid.T) *Bundle {
	n := rapid.IntRange(2, 6).Draw(t, "nrows")
	rows := []any{}
	for i := 0; i < n; i++ {
		rows = append(rows, map[string]any{"id": float64(i + 1), "a": float64(rapid.IntRange(0, 5).Draw(t, "a") * 10), "n": []any{map[string]any{"v": float64(i)}, map[string]any{"v": float64(i + 10)}, map[string]any{"v": float64(i + 20)}}})
	}
	grid := []any{}
	for i := 0; i < len(rows); i += 3 {
		grid = append(grid, append([]any{}, rows[i:min(i+3, len(rows))]...))
	}
	qual := rapid.SampledFrom([]string{"ASYNC", "SPINASYNC"}).Draw(t, "fr_qual")
	alias := ""
	if qual == "ASYNC" {
		alias = " AS y"
	}
	q := fmt.Sprintf(rapid.SampledFrom([]string{
		"SELECT id, %s.fx(1, a)%s, fid(2, a) AS b FROM t",
		"SELECT id, fid(2, a) AS b, %s.fx(1, a)%s FROM t",
		"SELECT id, %s.fx(1, a)%s FROM t WHERE fid(2, id) > 0",
		"SELECT id, (SELECT %s.fx(1, v)%s FROM n) AS sub, fid(2, a) AS b FROM t",
		"WITH c AS (SELECT id, %s.fx(1, a)%s, fid(2, a) AS b FROM t) SELECT * FROM c",
		// the row that fails is a row of a nested evaluation, which has calls of its own in flight
		"SELECT id, (SELECT %s.fx(1, v)%s, fid(2, v) AS b FROM n) AS sub FROM t",
		"SELECT id FROM t WHERE EXISTS (SELECT %s.fx(1, v)%s, fid(2, v) AS b FROM n)",
		"SELECT id, %s.fx(1, a)%s, fid(2, a) AS b FROM g",
		"SELECT id, (SELECT (SELECT %s.fx(1, v)%s, fid(2, v) AS b FROM n) AS s2 FROM dual) AS s1 FROM t",
	}).Draw(t, "fr_shape"), qual, alias)
	exp := c14Expect{Place: "failing_row", Sites: []c14Site{{ID: 1, Kind: strings.ToLower(qual)}}}
	c := oneClientCase("C14", drawSim(t, ""), map[string]any{"t": rows, "g": grid}, casefmt.Op{Doc: 0, Vars: -1, Query: q})
	c.Stubs.Lat = drawLatencies(t, []int{1}, n)
	c.Stubs.Faults = []casefmt.Fault{{ID: 2, K: rapid.IntRange(1, 2*n).Draw(t, "fr_k"), Kind: rapid.SampledFrom([]string{"error", "panic", "panic_str"}).Draw(t, "fr_kind")}}
	return &Bundle{Prop: "C14", Kind: "failing_row", Case: c, Expect: mustJSON(exp), Tags: []string{"place:failing_row"}}
}

func evalC14FailingRow(b *Bundle, r *Runner) []*Violation {
	o := r.Run(&b.Case, false)
	if vs := processHealth(b, o); len(vs) > 0 {
		return vs
	}
	op := &o.Ops[0]
	if !op.Returned || (!failed(op) && op.Panic == "") {
		r.Stats.probe("failing_row_fault_not_reached")
		return nil
	}
	started, late := 0, 0
	for _, c := range o.Calls {
		if c.ID != 1 {
			continue
		}
		if c.SeqStart > op.SeqReturn {
			// (a call that only starts after the failure has been reported is as late as one can be)
			late++
			continue
		}
		started++
		if c.SeqEnd == 0 || c.SeqEnd > op.SeqReturn {
			late++
		}
	}
	if late > 0 {
		return []*Violation{mkViolation(b, "INCOMPLETE_AT_RETURN", "after_failure", fmt.Sprintf("%s: Exec reported %s%s%s while %d call(s) of the evaluation were still running or yet to start (%d started before the return)", b.Case.Clients[0].Ops[0].Query, op.NewErr, op.ExecErr, op.Panic, late, started), o)}
	}
	if started > 0 {
		r.Stats.probe("failing_row_calls_in_flight_checked")
	}
	return nil
}

// genC14FailingCalls: the qualified calls themselves fail - several of them in one Exec, by returned error or by panic -
// and the caller has installed no handler, a handler that records, or a handler that panics. Whatever becomes of the
// failures, the strategies keep their promise about timing: every ASYNC/SPINASYNC call was invoked exactly once per row
// and has finished when Exec returns (with a result or an error), every SPIN call exactly once after the drain.
func genC14FailingCalls(t *rapid.T) *Bundle {
	n := rapid.IntRange(2, 7).Draw(t, "nrows")
	rows := []any{}
	for i := 0; i < n; i++ {
		rows = append(rows, map[string]any{"id": float64(i + 1), "a": float64(i * 10), "n": []any{map[string]any{"v": float64(i)}, map[string]any{"v": float64(i + 10)}}})
	}
	qual := rapid.SampledFrom([]string{"ASYNC", "ASYNC", "SPINASYNC", "SPIN"}).Draw(t, "fc_qual")
	alias := ""
	if qual == "ASYNC" {
		alias = " AS y"
	}
	per := 1 // invocations per row of t
	shape := rapid.SampledFrom([]string{"top", "top_two", "sub", "cte", "derived"}).Draw(t, "fc_shape")
	var q string
	switch shape {
	case "top":
		q = fmt.Sprintf("SELECT id, %s.fx(1, a)%s FROM t", qual, alias)
	case "top_two":
		q = fmt.Sprintf("SELECT id, %s.fx(1, a)%s, SPINASYNC.fx(1, id) FROM t", qual, alias)
		per = 2
	case "sub":
		q = fmt.Sprintf("SELECT id, (SELECT %s.fx(1, v)%s FROM n) AS sub FROM t", qual, alias)
		per = 2
	case "cte":
		q = fmt.Sprintf("WITH c AS (SELECT id, %s.fx(1, a)%s FROM t) SELECT * FROM c", qual, alias)
	case "derived":
		q = fmt.Sprintf("SELECT * FROM (SELECT id, %s.fx(1, a)%s FROM t) d", qual, alias)
	}
	total := n * per
	exp := c14Expect{Place: "failing_calls", Sites: []c14Site{{ID: 1, Kind: strings.ToLower(qual)}}, NRows: total}
	op := casefmt.Op{Doc: 0, Vars: -1, Query: q}
	switch rapid.IntRange(0, 2).Draw(t, "fc_handler") {
	case 0:
		op.NoHandlers = true
	case 1:
		op.HandlerPanics = true
	}
	op.ExecTwice = rapid.IntRange(0, 3).Draw(t, "fc_twice") == 0
	c := oneClientCase("C14", drawSim(t, ""), map[string]any{"t": rows}, op)
	c.Stubs.Lat = drawLatencies(t, []int{1}, total)
	ks := rapid.SliceOfNDistinct(rapid.IntRange(1, total), 1, min(4, total), func(k int) int { return k }).Draw(t, "fc_ks")
	for _, k := range ks {
		c.Stubs.Faults = append(c.Stubs.Faults, casefmt.Fault{ID: 1, K: k, Kind: rapid.SampledFrom([]string{"error", "panic", "panic_str"}).Draw(t, "fc_kind")})
	}
	tags := []string{"place:failing_calls", "shape:" + shape}
	if op.HandlerPanics {
		tags = append(tags, "handler_panics")
	}
	return &Bundle{Prop: "C14", Kind: "failing_calls", Case: c, Expect: mustJSON(exp), Tags: tags}
}

func evalC14FailingCalls(b *Bundle, r *Runner, exp *c14Expect) []*Violation {
	o := r.Run(&b.Case, false)
	if vs := processHealth(b, o); len(vs) > 0 {
		return vs
	}
	op := &o.Ops[0]
	q := b.Case.Clients[0].Ops[0].Query
	if !op.Returned {
		return []*Violation{mkViolation(b, "INCOMPLETE_AT_RETURN", "never_returned", q+": Exec did not return", o)}
	}
	if b.Case.Clients[0].Ops[0].ExecTwice {
		return nil // two evaluations share the call log: only the health of the process is judged
	}
	kind := exp.Sites[0].Kind
	calls, late, faulted := 0, 0, 0
	for _, c := range o.Calls {
		if c.ID != 1 {
			continue
		}
		calls++
		if c.Faulted != "" {
			faulted++
		}
		if kind != "spin" && (c.SeqStart > op.SeqReturn || c.SeqEnd == 0 || c.SeqEnd > op.SeqReturn) {
			late++
		}
	}
	if faulted > 0 {
		r.Stats.probe("qualified_calls_failed")
	}
	if late > 0 {
		return []*Violation{mkViolation(b, "INCOMPLETE_AT_RETURN", "kind="+kind+" failing_calls", fmt.Sprintf("%s: %d of %d %s call(s) had not finished when Exec returned (%s%s); %d call(s) failed as planned", q, late, calls, kind, op.NewErr, op.ExecErr, faulted), o)}
	}
	if calls != exp.NRows {
		return []*Violation{mkViolation(b, "CALL_COUNT", "kind="+kind+" failing_calls", fmt.Sprintf("%s: %d invocation(s), want %d (one per row and call site) - %d call(s) failed as planned; Exec: %s%s", q, calls, exp.NRows, faulted, op.NewErr, op.ExecErr), o)}
	}
	return nil
}

// genC14CallsInJoinOn: ASYNC calls made from the ON of a join - of the inner join of a three-table join as well, which
// is built on a copy of the query: whoever builds the join, the calls belong to the query and are complete when its
// Exec returns. (The slot such a call leaves in the ON expression is no value - the recorded known finding of C12 - so
// only completion is decided here, never the rows.)
func genC14CallsInJoinOn(t *rapid.T) *Bundle {
	n := rapid.IntRange(1, 4).Draw(t, "nrows")
	rows, keys := []any{}, []any{}
	for i := 0; i < n; i++ {
		rows = append(rows, map[string]any{"id": float64(i + 1), "a": float64(i * 10)})
		keys = append(keys, map[string]any{"id": float64(i + 1)})
	}
	jt := rapid.SampledFrom([]string{"JOIN", "LEFT JOIN", "STRAIGHT_JOIN", "PARALLEL JOIN"}).Draw(t, "cjo_jt")
	q := fmt.Sprintf(rapid.SampledFrom([]string{
		"SELECT x.id AS id FROM t x %s k y ON x.id <= y.id AND ASYNC.fx(1, x.id) IS NOT NULL",
		"SELECT x.id AS id FROM t x %s k y ON x.id <= y.id AND ASYNC.fx(1, x.id) IS NOT NULL JOIN k z ON y.id = z.id",
		"SELECT z.id AS id FROM k z JOIN (t x %s k y ON x.id <= y.id AND ASYNC.fx(1, y.id) IS NOT NULL) ON y.id = z.id",
		"SELECT x.id AS id FROM t x %s k y ON x.id <= y.id AND AWAIT(ASYNC.fx(1, x.id)) IS NOT NULL JOIN k z ON y.id = z.id",
	}).Draw(t, "cjo_shape"), jt)
	exp := c14Expect{Place: "calls_in_join_on", Sites: []c14Site{{ID: 1, Kind: "async"}}}
	c := oneClientCase("C14", drawSim(t, ""), map[string]any{"t": rows, "k": keys}, casefmt.Op{Doc: 0, Vars: -1, Query: q})
	c.Stubs.Lat = drawLatencies(t, []int{1}, n*n)
	return &Bundle{Prop: "C14", Kind: "calls_in_join_on", Case: c, Expect: mustJSON(exp), Tags: []string{"place:calls_in_join_on"}}
}

func evalC14CallsInJoinOn(b *Bundle, r *Runner) []*Violation {
	o := r.Run(&b.Case, false)
	if vs := processHealth(b, o); len(vs) > 0 {
		return vs
	}
	op := &o.Ops[0]
	if !op.Returned || failed(op) {
		// (a grammar the engine refuses is no statement about completion)
		r.Stats.probe("calls_in_join_on_query_refused")
		return nil
	}
	late, made := 0, 0
	for _, c := range o.Calls {
		if c.ID != 1 {
			continue
		}
		made++
		if c.SeqEnd == 0 || c.SeqEnd > op.SeqReturn {
			late++
		}
	}
	if late > 0 {
		return []*Violation{mkViolation(b, "INCOMPLETE_AT_RETURN", "join_on", fmt.Sprintf("%s: %d of the %d ASYNC call(s) made from ON had not completed when Exec returned", b.Case.Clients[0].Ops[0].Query, late, made), o)}
	}
	if made > 0 {
		r.Stats.probe("calls_in_join_on_checked")
	}
	return nil
}

func genC14Differential(t *rapid.T) *Bundle {
	n := rapid.IntRange(0, 6).Draw(t, "nrows")
	rows := []any{}
	keys := []any{}
	for i := 0; i < n; i++ {
		nested := []any{}
		for j := 0; j < rapid.IntRange(0, 2).Draw(t, "nn"); j++ {
			nested = append(nested, map[string]any{"v": float64(rapid.IntRange(0, 3).Draw(t, "v"))})
		}
		// few distinct values: DISTINCT has duplicates to remove, ORDER BY has ties to break
		rows = append(rows, map[string]any{"id": float64(i + 1), "a": float64(rapid.IntRange(0, 2).Draw(t, "a") * 10), "s": rapid.SampledFrom([]string{"x", "y"}).Draw(t, "s"), "n": nested})
		if rapid.IntRange(0, 3).Draw(t, "has_partner") > 0 {
			keys = append(keys, map[string]any{"id": float64(i + 1)})
		}
	}
	d := rapid.SampledFrom(c14Differential).Draw(t, "diff_tpl")
	qual := rapid.SampledFrom([]string{"ASYNC.", "ASYNC.", "async.", "SPINASYNC."}).Draw(t, "diff_qual")
	if qual == "SPINASYNC." && !strings.Contains(d.tpl, "AS v FROM t LIMIT") && !strings.Contains(d.tpl, "AS v FROM t WHERE") {
		qual = "ASYNC." // SPINASYNC adds no column: only meaningful where the column is not consumed
	}
	exp := c14Expect{Place: "differential", Template: d.tpl, Qual: qual, Multiset: d.multiset, Twice: rapid.Bool().Draw(t, "diff_twice")}
	q := strings.ReplaceAll(d.tpl, "%Q%", qual)
	c := oneClientCase("C14", drawSim(t, ""), map[string]any{"t": rows, "k": keys}, casefmt.Op{Doc: 0, Vars: -1, Query: q, ExecTwice: exp.Twice})
	c.Stubs.Lat = drawLatencies(t, []int{1}, 7)
	return &Bundle{Prop: "C14", Kind: "differential", Case: c, Expect: mustJSON(exp), Tags: []string{"place:differential"}}
}

func evalC14Differential(b *Bundle, r *Runner, exp *c14Expect) []*Violation {
	vs := evalC14Diff(b, r, exp)
	// one finding per shape
	for _, v := range vs {
		for i, d := range c14Differential {
			if d.tpl == exp.Template {
				v.Sig = strings.Replace(v.Sig, "differential", fmt.Sprintf("differential:%d", i), 1)
			}
		}
	}
	return vs
}

func evalC14Diff(b *Bundle, r *Runner, exp *c14Expect) []*Violation {
	o := r.Run(&b.Case, false)
	if vs := processHealth(b, o); len(vs) > 0 {
		return vs
	}
	plain := b.Case
	plain.Clients = []casefmt.Client{{Name: "client0", Ops: []casefmt.Op{{Doc: 0, Vars: -1, Query: strings.ReplaceAll(exp.Template, "%Q%", ""), ExecTwice: exp.Twice}}}}
	plain.Sim.Strategy, plain.Sim.ChangePoints = "np", nil
	p := r.Run(&plain, false)
	if len(processHealth(b, p)) > 0 || len(p.Ops) != 1 || failed(&p.Ops[0]) || p.Ops[0].Panic != "" {
		r.Stats.probe("differential_plain_form_fails_skipped")
		return nil
	}
	op, pop := &o.Ops[0], &p.Ops[0]
	q := b.Case.Clients[0].Ops[0].Query
	if !op.Returned {
		return []*Violation{mkViolation(b, "NO_RETURN", "", "the query did not return although the run terminated", o)}
	}
	if failed(op) || op.Panic != "" {
		return []*Violation{mkViolation(b, "UNEXPECTED_ERROR", "differential", fmt.Sprintf("%s failed (%s%s%s) while the unqualified form succeeds", q, op.NewErr, op.ExecErr, op.Panic), o)}
	}
	// completion before return and one invocation per invocation of the unqualified form
	calls, pcalls, late := 0, 0, 0
	for _, c := range o.Calls {
		calls++
		// (invocations of a second Exec start after the first one returned)
		if c.SeqStart < op.SeqReturn && (c.SeqEnd == 0 || c.SeqEnd > op.SeqReturn) {
			late++
		}
	}
	pcalls = len(p.Calls)
	if late > 0 {
		return []*Violation{mkViolation(b, "INCOMPLETE_AT_RETURN", "differential", fmt.Sprintf("%s: %d of %d invocation(s) had not completed when Exec returned", q, late, calls), o)}
	}
	if calls != pcalls {
		return []*Violation{mkViolation(b, "CALL_COUNT", "differential", fmt.Sprintf("%s: %d invocation(s), the unqualified form makes %d (second Exec: %v)", q, calls, pcalls, exp.Twice), o)}
	}
	same := func(a, c json.RawMessage) bool {
		if exp.Qual == "SPINASYNC." {
			return true // no column to compare; the row set is compared by C12/C20-style checks elsewhere
		}
		x, y := normJSON(a), normJSON(c)
		if jsonEqual(x, y) {
			return true
		}
		xa, ok1 := asArray(x)
		ya, ok2 := asArray(y)
		return exp.Multiset && ok1 && ok2 && multisetEqual(xa, ya)
	}
	cls := "ASYNC_CHANGES_RESULT"
	if len(op.Leaks) > 0 {
		cls = "UNRESOLVED_SLOT_IN_RESULT"
	}
	if !same(op.Rows, pop.Rows) {
		return []*Violation{mkViolation(b, cls, "differential", fmt.Sprintf("%s\n returned      %s\n unqualified   %s", q, compact(op.Rows), compact(pop.Rows)), o)}
	}
	if exp.Twice {
		if op.Exec2 != "ok" || !same(op.Rows2, pop.Rows2) {
			return []*Violation{mkViolation(b, cls, "differential second_exec", fmt.Sprintf("%s, Exec called a second time on the same Query: %s\n returned      %s\n unqualified   %s", q, op.Exec2, compact(op.Rows2), compact(pop.Rows2)), o)}
		}
		r.Stats.probe("differential_second_exec_compared")
	}
	if string(op.Rows) != string(op.RowsAfter) && !exp.Twice {
		return []*Violation{mkViolation(b, "RESULT_CHANGED_AFTER_RETURN", "differential", fmt.Sprintf("at return %s\n after drain %s", compact(op.Rows), compact(op.RowsAfter)), o)}
	}
	r.Stats.probe("differential_cases_compared")
	return nil
}

func c14ItemSQL(it c14Item) string {
	arg := it.Arg
	if it.IsCons {
		arg = sqlLit(it.Const)
	}
	switch it.Kind {
	case "col":
		return it.Arg
	case "plain":
		return fmt.Sprintf("%s(%d, %s) AS %s", it.Stub, it.Site, arg, it.Alias)
	case "async":
		return fmt.Sprintf("ASYNC.%s(%d, %s) AS %s", it.Stub, it.Site, arg, it.Alias)
	case "spin":
		return fmt.Sprintf("SPIN.%s(%d, %s)", it.Stub, it.Site, arg)
	case "spinasync":
		return fmt.Sprintf("SPINASYNC.%s(%d, %s)", it.Stub, it.Site, arg)
	case "once":
		return fmt.Sprintf("ONCE.%s(%d, %s) AS %s", it.Stub, it.Site, arg, it.Alias)
	case "immq":
		// it.Qual carries the spelling of qualifier and function name, e.g. "Async.IMM"
		q := it.Qual
		if !strings.Contains(q, ".") {
			q += ".imm"
		}
		return fmt.Sprintf("%s(%d, %s) AS %s", q, it.Site, arg, it.Alias)
	case "global":
		// GLOBAL takes subqueries only; the call-site id travels as a one-cell subquery
		return fmt.Sprintf("GLOBAL.%s((SELECT %d AS i FROM dual), (SELECT a FROM `<-t`)) AS %s", it.Stub, it.Site, it.Alias)
	}
	return "1"
}

// c14Project computes the expected output row for one source row and records
// expected stub calls.
func c14Project(items []c14Item, row map[string]any, onceVal map[int]any, sites map[int]*c14Site) map[string]any {
	out := map[string]any{}
	for _, it := range items {
		var arg any
		if it.IsCons {
			arg = it.Const
		} else {
			arg = row[it.Arg]
		}
		switch it.Kind {
		case "col":
			out[it.Arg] = row[it.Arg]
		case "plain", "async":
			out[it.Alias] = stubValue(it.Stub, it.Site, arg)
			sites[it.Site].Args = append(sites[it.Site].Args, argText(arg))
		case "spin", "spinasync":
			sites[it.Site].Args = append(sites[it.Site].Args, argText(arg))
		case "global":
			if _, ok := onceVal[it.Site]; !ok {
				onceVal[it.Site] = true
				sites[it.Site].Args = append(sites[it.Site].Args, "[]interface {}")
			}
			out[it.Alias] = "$ALL_A"
		case "once":
			// the memo is per function name: onceVal is keyed by a negative pseudo-site per stub
			key := -1
			if it.Stub == "fid" {
				key = -2
			}
			if _, ok := onceVal[key]; !ok {
				if it.Dup {
					// cannot happen: a Dup item always follows the first call of its function
					panic("c14: duplicate ONCE item before the first one")
				}
				onceVal[key] = []any{stubValue(it.Stub, it.Site, arg)}
				sites[it.Site].Args = append(sites[it.Site].Args, argText(arg))
			}
			out[it.Alias] = onceVal[key].([]any)[0]
		}
	}
	return out
}

// genC14Reregister draws a registration sequence ending in a qualified call of
// a function that is immediate by then.
func genC14Reregister(t *rapid.T) *Bundle {
	name := rapid.SampledFrom([]string{"late", "late2", "lookup"}).Draw(t, "fname")
	qual := rapid.SampledFrom([]string{"ASYNC", "SPIN", "SPINASYNC"}).Draw(t, "qual")
	n := rapid.IntRange(1, 4).Draw(t, "nrows")
	rows := []any{}
	for i := 0; i < n; i++ {
		rows = append(rows, map[string]any{"id": float64(i + 1), "a": float64(rapid.IntRange(0, 5).Draw(t, "a") * 10)})
	}
	var ops []casefmt.Op
	if rapid.Bool().Draw(t, "registered_plain_first") {
		ops = append(ops, casefmt.Op{Doc: 0, Vars: -1, Register: name})
		for i := 0; i < rapid.IntRange(0, 2).Draw(t, "uses_before"); i++ {
			form := rapid.SampledFrom([]string{"SELECT id, %s(1, a) AS x FROM t", "SELECT id, ASYNC.%s(1, a) AS x FROM t", "SELECT id FROM t WHERE %s(1, a) >= 0", "SELECT id, ONCE.%s(1, a) AS x FROM t"}).Draw(t, "use_form")
			ops = append(ops, casefmt.Op{Doc: 0, Vars: -1, Query: fmt.Sprintf(form, name)})
		}
	}
	ops = append(ops, casefmt.Op{Doc: 0, Vars: -1, Register: name, RegisterImmediate: true})
	// registered again, any number of times (a package initialised twice, an application overriding a
	// function): as long as the last registration is an immediate one the function is immediate
	for i := 0; i < rapid.IntRange(0, 3).Draw(t, "registered_again"); i++ {
		if rapid.IntRange(0, 3).Draw(t, "again_plain") == 0 {
			ops = append(ops, casefmt.Op{Doc: 0, Vars: -1, Register: name})
		}
		ops = append(ops, casefmt.Op{Doc: 0, Vars: -1, Register: name, RegisterImmediate: true})
	}
	alias := ""
	if qual == "ASYNC" {
		alias = " AS y"
	}
	ops = append(ops, casefmt.Op{Doc: 0, Vars: -1, Query: fmt.Sprintf("SELECT id, %s.%s(2, a)%s FROM t", qual, name, alias)})
	c := oneClientCase("C14", drawSim(t, ""), map[string]any{"t": rows}, ops...)
	return &Bundle{Prop: "C14", Kind: "reregister", Case: c, Expect: mustJSON(c14Expect{Place: "reregister", Error: true, Rows: []any{}}), Tags: []string{"place:reregister"}}
}

// genC14Barrier: every ASYNC/SPINASYNC call of a query is in flight at the same time, so user code that waits
// for its sibling invocations (a batching function) completes, however many rows there are.
func genC14Barrier(t *rapid.T) *Bundle {
	n := rapid.SampledFrom([]int{2, 5, 17, 66, 70, 130}).Draw(t, "bar_rows")
	qual := rapid.SampledFrom([]string{"ASYNC", "SPINASYNC"}).Draw(t, "bar_qual")
	rows := []any{}
	want := []any{}
	var args []string
	for i := 0; i < n; i++ {
		a := float64(i % 7 * 10)
		rows = append(rows, map[string]any{"id": float64(i + 1), "a": a, "n": []any{}})
		out := map[string]any{"id": float64(i + 1)}
		if qual == "ASYNC" {
			out["y"] = a + 1000
		}
		want = append(want, out)
		args = append(args, argText(a))
	}
	sort.Strings(args)
	alias := ""
	if qual == "ASYNC" {
		alias = " AS y"
	}
	q := fmt.Sprintf("SELECT id, %s.bar(1, %d, a)%s FROM t", qual, n, alias)
	kind := map[string]string{"ASYNC": "async", "SPINASYNC": "spinasync"}[qual]
	exp := c14Expect{Place: "barrier", Rows: want, Sites: []c14Site{{ID: 1, Kind: kind, Args: args}}}
	sim := drawSim(t, "")
	c := oneClientCase("C14", sim, map[string]any{"t": rows}, casefmt.Op{Doc: 0, Vars: -1, Query: q})
	c.Sim.StepBudget = 3000000
	return &Bundle{Prop: "C14", Kind: "barrier", Case: c, Expect: mustJSON(exp), Tags: []string{"place:barrier"}}
}

// genC14AwaitDerived: the README's AWAIT form - the outer query awaits ASYNC columns of a derived table.
func genC14AwaitDerived(t *rapid.T) *Bundle {
	n := rapid.IntRange(0, 5).Draw(t, "nrows")
	rows := []any{}
	for i := 0; i < n; i++ {
		rows = append(rows, map[string]any{"id": float64(i + 1), "a": float64(rapid.IntRange(0, 5).Draw(t, "a") * 10), "s": rapid.SampledFrom([]string{"x", "y"}).Draw(t, "s"), "n": []any{},
			"o": map[string]any{"p": float64(rapid.IntRange(1, 9).Draw(t, "op")), "q": rapid.SampledFrom([]string{"k", "m"}).Draw(t, "oq")}})
	}
	k := rapid.IntRange(1, 3).Draw(t, "nasync")
	var inner, outer []string
	sites := []c14Site{}
	want := make([]map[string]any, n)
	for i := range want {
		want[i] = map[string]any{"id": float64(i + 1)}
	}
	var ids []int
	for j := 1; j <= k; j++ {
		stub := rapid.SampledFrom([]string{"fx", "fid"}).Draw(t, "stub")
		col := rapid.SampledFrom([]string{"a", "s", "id", "o"}).Draw(t, "col")
		sub := ""
		if col == "o" {
			// the awaited selector navigates into the object the ASYNC call returns (the README's form)
			stub = "fid"
			sub = rapid.SampledFrom([]string{"p", "q"}).Draw(t, "subkey")
		}
		inner = append(inner, fmt.Sprintf("ASYNC.%s(%d, %s) AS c%d", stub, j, col, j))
		if sub != "" {
			outer = append(outer, fmt.Sprintf("AWAIT(`d.c%d.%s`) AS c%d", j, sub, j))
		} else {
			outer = append(outer, fmt.Sprintf("AWAIT(d.c%d) AS c%d", j, j))
		}
		st := c14Site{ID: j, Kind: "async"}
		for i, r := range rows {
			v := r.(map[string]any)[col]
			st.Args = append(st.Args, argText(v))
			if sub != "" {
				want[i][fmt.Sprintf("c%d", j)] = v.(map[string]any)[sub]
			} else {
				want[i][fmt.Sprintf("c%d", j)] = stubValue(stub, j, v)
			}
		}
		sort.Strings(st.Args)
		sites = append(sites, st)
		ids = append(ids, j)
	}
	q := fmt.Sprintf("SELECT d.id AS id, %s FROM (SELECT id, %s FROM t) d", strings.Join(outer, ", "), strings.Join(inner, ", "))
	exp := c14Expect{Place: "await_derived", Sites: sites}
	for _, w := range want {
		exp.Rows = append(exp.Rows, w)
	}
	if exp.Rows == nil {
		exp.Rows = []any{}
	}
	c := oneClientCase("C14", drawSim(t, ""), map[string]any{"t": rows}, casefmt.Op{Doc: 0, Vars: -1, Query: q})
	c.Stubs.Lat = drawLatencies(t, ids, n+1)
	return &Bundle{Prop: "C14", Kind: "await_derived", Case: c, Expect: mustJSON(exp), Tags: []string{"place:await_derived"}}
}

// genC14OnceInJoinOn: a ONCE call in a join's ON (evaluated while the query is built) and the same function
// under ONCE in the select list (evaluated by Exec) are one call per query.
func genC14OnceInJoinOn(t *rapid.T) *Bundle {
	n := rapid.IntRange(0, 4).Draw(t, "nrows")
	rows := []any{}
	want := []any{}
	for i := 0; i < n; i++ {
		rows = append(rows, map[string]any{"id": float64(i + 1), "a": float64(i * 10), "n": []any{}})
		want = append(want, map[string]any{"id": float64(i + 1), "o": true})
	}
	jt := rapid.SampledFrom([]string{"JOIN", "LEFT JOIN", "PARALLEL JOIN", "STRAIGHT_JOIN", "PARALLEL LEFT JOIN"}).Draw(t, "jt")
	q := fmt.Sprintf("SELECT x.id AS id, ONCE.fid(2, TRUE) AS o FROM t x %s t y ON x.id = y.id AND ONCE.fid(1, TRUE)", jt)
	exp := c14Expect{Place: "once_in_join_on", Rows: want, Sites: []c14Site{{ID: 1, Kind: "once", Args: []string{"b:true"}}, {ID: 2, Kind: "once", Args: []string{}}}}
	if rapid.Bool().Draw(t, "global_in_on") {
		// GLOBAL is the other run-once strategy: one invocation per query, however many workers evaluate ON
		q = fmt.Sprintf("SELECT x.id AS id, ONCE.fid(2, TRUE) AS o FROM t x %s t y ON x.id = y.id AND GLOBAL.fid((SELECT 1 AS i FROM dual), (SELECT 1 AS b FROM dual)) IS NOT NULL", jt)
		exp.Sites[0] = c14Site{ID: 1, Kind: "global", Args: []string{"map[string]interface {}"}}
		// (the ONCE call of the select list is the only ONCE call of fid now: it is made, once)
		exp.Sites[1].Args = []string{"b:true"}
	}
	if n == 0 {
		exp.Sites[0].Args = []string{}
		exp.Sites[1].Args = []string{}
	}
	c := oneClientCase("C14", drawSim(t, ""), map[string]any{"t": rows}, casefmt.Op{Doc: 0, Vars: -1, Query: q})
	c.Stubs.Lat = drawLatencies(t, []int{1}, 4)
	return &Bundle{Prop: "C14", Kind: "once_in_join_on", Case: c, Expect: mustJSON(exp), Tags: []string{"place:once_in_join_on"}}
}

func genC14(t *rapid.T) *Bundle {
	switch rapid.IntRange(0, 39).Draw(t, "special") {
	case 0, 1:
		return genC14Reregister(t)
	case 2:
		return genC14Barrier(t)
	case 3, 4, 5:
		return genC14AwaitDerived(t)
	case 6:
		return genC14OnceInJoinOn(t)
	case 7, 8, 9, 10, 11, 12:
		return genC14Differential(t)
	case 13, 14:
		return genC14FailingRow(t)
	case 15:
		return genC14CallsInJoinOn(t)
	case 16, 17:
		return genC14FailingCalls(t)
	}
	nrows := rapid.IntRange(0, 6).Draw(t, "nrows")
	place := rapid.SampledFrom([]string{"top", "derived_star", "cte", "subquery", "derived_cols", "subquery_in_derived", "subquery_in_cte", "union_branch", "exists", "cte_chain", "grid"}).Draw(t, "place")
	// the calls sit in a row-scoped subquery (possibly itself nested in a derived table / CTE)
	inSub := strings.HasPrefix(place, "subquery") || place == "exists"
	ragged := false
	rows := make([]any, 0, nrows)
	for i := 0; i < nrows; i++ {
		r := map[string]any{
			"id": float64(i + 1),
			"a":  float64(rapid.IntRange(0, 5).Draw(t, "a") * 10),
			"s":  rapid.SampledFrom([]string{"x", "y", "zz"}).Draw(t, "s"),
		}
		nn := rapid.IntRange(0, 3).Draw(t, "nnested")
		nested := make([]any, 0, nn)
		for j := 0; j < nn; j++ {
			nested = append(nested, map[string]any{"v": float64(rapid.IntRange(0, 9).Draw(t, "v")), "w": rapid.SampledFrom([]string{"p", "q"}).Draw(t, "w")})
		}
		r["n"] = nested
		rows = append(rows, r)
	}
	doc := map[string]any{"t": rows}
	argCols := []string{"id", "a", "s"}
	if inSub {
		argCols = []string{"v", "w"}
	}
	nitems := rapid.IntRange(1, 6).Draw(t, "nitems")
	var items []c14Item
	usedOnce := map[string]bool{}
	usedGlobal := map[string]bool{}
	usedCols := map[string]bool{}
	site := 0
	hasImmq := false
	for i := 0; i < nitems; i++ {
		kinds := []string{"async", "plain", "col", "spin", "spinasync", "async", "once", "immq"}
		if place == "top" || place == "derived_star" || place == "cte" {
			kinds = append(kinds, "global")
		}
		kind := rapid.SampledFrom(kinds).Draw(t, "kind")
		it := c14Item{Kind: kind}
		it.Arg = rapid.SampledFrom(argCols).Draw(t, "argcol")
		switch kind {
		case "col":
			if usedCols[it.Arg] {
				continue
			}
			usedCols[it.Arg] = true
		case "once":
			it.Stub = rapid.SampledFrom([]string{"fx", "fid"}).Draw(t, "stub")
			constKind := rapid.IntRange(0, 3).Draw(t, "once_const")
			if constKind == 1 {
				it.Stub = "fid" // a NULL result needs the identity stub
			}
			if inSub {
				continue
			}
			if usedOnce[it.Stub] {
				// a second ONCE call of the same function in one query: still a single invocation per query,
				// every row and both columns carry the first call's value
				if rapid.IntRange(0, 2).Draw(t, "once_again") > 0 {
					continue
				}
				it.Dup = true
			}
			usedOnce[it.Stub] = true
			switch constKind {
			case 0:
				it.IsCons = true
				it.Const = float64(rapid.IntRange(0, 9).Draw(t, "const"))
			case 1:
				// a ONCE call whose single result is NULL is still exactly one call
				it.IsCons = true
				it.Const = nil
			}
		case "global":
			// GLOBAL is another run-once strategy with its own memo: it must not disturb ONCE of the same function
			it.Stub = rapid.SampledFrom([]string{"fx", "fid"}).Draw(t, "stub")
			if usedGlobal[it.Stub] {
				continue
			}
			usedGlobal[it.Stub] = true
		case "immq":
			it.Qual = rapid.SampledFrom([]string{"ASYNC", "SPIN", "SPINASYNC", "async.imm", "Async.IMM", "SPIN.Imm", "spinasync.IMM"}).Draw(t, "qual")
			it.Stub = "imm"
			hasImmq = true
		default:
			it.Stub = rapid.SampledFrom([]string{"fx", "fid"}).Draw(t, "stub")
		}
		if kind != "col" {
			site++
			it.Site = site
			it.Alias = fmt.Sprintf("c%d", site)
			// now and then two items write the same output column: the later one wins, qualified or not
			if rapid.IntRange(0, 9).Draw(t, "alias_collision") == 0 {
				it.Alias = "dup"
			}
		}
		items = append(items, it)
	}
	if len(items) == 0 {
		items = append(items, c14Item{Kind: "col", Arg: argCols[0]})
	}
	var sel []string
	for _, it := range items {
		sel = append(sel, c14ItemSQL(it))
	}
	selSQL := strings.Join(sel, ", ")
	whereK := -1
	if rapid.Bool().Draw(t, "has_where") {
		whereK = rapid.IntRange(0, 5).Draw(t, "where_k") * 10
	}
	where := ""
	if whereK >= 0 && !inSub {
		where = fmt.Sprintf(" WHERE a >= %d", whereK)
	}
	var query string
	switch place {
	case "top":
		query = fmt.Sprintf("SELECT %s FROM t%s", selSQL, where)
	case "grid":
		// FROM rows that are arrays themselves: the rows of t, two to an inner array
		query = fmt.Sprintf("SELECT %s FROM g%s", selSQL, where)
		g := []any{}
		for i := 0; i < len(rows); i += 2 {
			end := i + 2
			if end > len(rows) {
				end = len(rows)
			}
			g = append(g, append([]any{}, rows[i:end]...))
		}
		// ragged: a source that mixes arrays and objects - the last row stands alone, as an object
		ragged = len(rows)%2 == 1 && len(rows) > 1 && rapid.Bool().Draw(t, "ragged")
		if ragged {
			g[len(g)-1] = rows[len(rows)-1]
		}
		doc["g"] = g
	case "derived_star":
		query = fmt.Sprintf("SELECT * FROM (SELECT %s FROM t%s) d", selSQL, where)
	case "derived_cols":
		// re-project every output column of the derived table
		var outs []string
		for _, it := range items {
			switch it.Kind {
			case "col":
				outs = append(outs, "d."+it.Arg)
			case "plain", "async", "once":
				outs = append(outs, "d."+it.Alias)
			}
		}
		if len(outs) == 0 {
			outs = []string{"1 AS one"}
		}
		query = fmt.Sprintf("SELECT %s FROM (SELECT %s FROM t%s) d", strings.Join(outs, ", "), selSQL, where)
	case "cte":
		query = fmt.Sprintf("WITH c AS (SELECT %s FROM t%s) SELECT * FROM c", selSQL, where)
	case "subquery":
		query = fmt.Sprintf("SELECT id, (SELECT %s FROM n) AS sub FROM t", selSQL)
	case "union_branch":
		query = fmt.Sprintf("SELECT id FROM t UNION ALL SELECT %s FROM t%s", selSQL, where)
	case "exists":
		query = fmt.Sprintf("SELECT id FROM t WHERE EXISTS (SELECT %s FROM n)", selSQL)
	case "cte_chain":
		query = fmt.Sprintf("WITH c1 AS (SELECT %s FROM t%s), c2 AS (SELECT * FROM c1) SELECT * FROM c2", selSQL, where)
	case "subquery_in_derived":
		query = fmt.Sprintf("SELECT * FROM (SELECT id, (SELECT %s FROM n) AS sub FROM t) d", selSQL)
	case "subquery_in_cte":
		query = fmt.Sprintf("WITH c AS (SELECT id, (SELECT %s FROM n) AS sub FROM t) SELECT * FROM c", selSQL)
	}

	// expectation
	// an immediate-qualified call is rejected when it is evaluated, i.e. when at
	// least one row reaches the select list that contains it
	evaluated := 0
	for _, r := range rows {
		row := r.(map[string]any)
		if inSub {
			evaluated += len(row["n"].([]any))
		} else if whereK < 0 || row["a"].(float64) >= float64(whereK) {
			evaluated++
		}
	}
	hasImmq = hasImmq && evaluated > 0
	exp := c14Expect{Place: place, Error: hasImmq, CompletionOnly: place == "union_branch" || place == "exists"}
	sites := map[int]*c14Site{}
	for _, it := range items {
		if it.Kind != "col" && it.Kind != "immq" {
			sites[it.Site] = &c14Site{ID: it.Site, Kind: it.Kind}
		}
	}
	if !hasImmq {
		onceVal := map[int]any{}
		for _, r := range rows {
			row := r.(map[string]any)
			if inSub {
				inner := []any{}
				// ONCE is per query: the subquery is prepared once per outer row
				perRowOnce := map[int]any{}
				for _, nr := range row["n"].([]any) {
					inner = append(inner, c14Project(items, nr.(map[string]any), perRowOnce, sites))
				}
				outer := map[string]any{"id": row["id"], "sub": inner}
				if place == "subquery_in_derived" {
					outer = map[string]any{"d": outer}
				}
				exp.Rows = append(exp.Rows, outer)
				continue
			}
			if whereK >= 0 && row["a"].(float64) < float64(whereK) {
				continue
			}
			out := c14Project(items, row, onceVal, sites)
			switch place {
			case "derived_star":
				exp.Rows = append(exp.Rows, map[string]any{"d": out})
			case "derived_cols":
				o2 := map[string]any{}
				n := 0
				for _, it := range items {
					switch it.Kind {
					case "col":
						o2[it.Arg] = out[it.Arg]
						n++
					case "plain", "async", "once":
						o2[it.Alias] = out[it.Alias]
						n++
					}
				}
				if n == 0 {
					o2["one"] = float64(1)
				}
				exp.Rows = append(exp.Rows, o2)
			default:
				exp.Rows = append(exp.Rows, out)
			}
		}
	}
	if place == "grid" && !hasImmq {
		// the result has the nesting of the source; a row WHERE rejects leaves its inner array shorter
		nested := []any{}
		k := 0
		for i := 0; i < len(rows); i += 2 {
			inner := []any{}
			for j := i; j < i+2 && j < len(rows); j++ {
				if whereK < 0 || rows[j].(map[string]any)["a"].(float64) >= float64(whereK) {
					inner = append(inner, exp.Rows[k])
					k++
				}
			}
			if ragged && i+1 >= len(rows) {
				// the lone object row is a row of the outer table
				nested = append(nested, inner...)
				continue
			}
			nested = append(nested, inner)
		}
		exp.Rows = nested
	}
	// GLOBAL columns hold the `a` column of every row of t
	allA := []any{}
	for _, r := range rows {
		allA = append(allA, map[string]any{"a": r.(map[string]any)["a"]})
	}
	var fill func(v any) any
	fill = func(v any) any {
		switch x := v.(type) {
		case string:
			if x == "$ALL_A" {
				return allA
			}
		case map[string]any:
			for k, c := range x {
				x[k] = fill(c)
			}
		case []any:
			for i, c := range x {
				x[i] = fill(c)
			}
		}
		return v
	}
	for i := range exp.Rows {
		exp.Rows[i] = fill(exp.Rows[i])
	}
	var siteIDs []int
	for id, s := range sites {
		sort.Strings(s.Args)
		exp.Sites = append(exp.Sites, *s)
		siteIDs = append(siteIDs, id)
	}
	sort.Slice(exp.Sites, func(i, j int) bool { return exp.Sites[i].ID < exp.Sites[j].ID })
	sort.Ints(siteIDs)
	if exp.Rows == nil {
		exp.Rows = []any{}
	}
	sim := drawSim(t, "")
	c := oneClientCase("C14", sim, doc, casefmt.Op{Doc: 0, Vars: -1, Query: query, Wrapped: rapid.Bool().Draw(t, "wrapped") && place != "cte" && false})
	maxCalls := nrows
	if inSub {
		maxCalls = nrows * 3
	}
	if maxCalls < 1 {
		maxCalls = 1
	}
	c.Stubs.Lat = drawLatencies(t, siteIDs, maxCalls)
	return &Bundle{Prop: "C14", Kind: place, Case: c, Expect: mustJSON(exp), Tags: []string{"place:" + place}}
}

func evalC14(b *Bundle, r *Runner) []*Violation {
	var exp c14Expect
	if err := json.Unmarshal(b.Expect, &exp); err != nil {
		infra("C14: bad expectation: %v", err)
	}
	if exp.Place == "differential" {
		return evalC14Differential(b, r, &exp)
	}
	if exp.Place == "failing_row" {
		return evalC14FailingRow(b, r)
	}
	if exp.Place == "calls_in_join_on" {
		return evalC14CallsInJoinOn(b, r)
	}
	if exp.Place == "failing_calls" {
		return evalC14FailingCalls(b, r, &exp)
	}
	o := r.Run(&b.Case, false)
	vs := processHealth(b, o)
	if len(vs) > 0 {
		return vs
	}
	if exp.Place == "reregister" {
		// a function name registered as immediate rejects the qualifiers from then on, whatever was
		// registered or evaluated under that name earlier in the process
		last := o.Ops[len(o.Ops)-1]
		for i := range o.Ops[:len(o.Ops)-1] {
			if failed(&o.Ops[i]) || o.Ops[i].Panic != "" {
				return []*Violation{mkViolation(b, "UNEXPECTED_ERROR", "reregister", fmt.Sprintf("step %d of the registration sequence failed: %s%s%s", i, o.Ops[i].NewErr, o.Ops[i].ExecErr, o.Ops[i].Panic), o)}
			}
		}
		if !failed(&last) {
			var seq []string
			for _, op := range b.Case.Clients[0].Ops {
				if op.Register != "" {
					seq = append(seq, fmt.Sprintf("register %s immediate=%v", op.Register, op.RegisterImmediate))
				} else {
					seq = append(seq, op.Query)
				}
			}
			return []*Violation{mkViolation(b, "IMMEDIATE_QUALIFIER_ACCEPTED", "reregister", "after the sequence ["+strings.Join(seq, " ; ")+"] the qualified call on the now-immediate function did not fail: rows="+compact(last.Rows), o)}
		}
		r.Stats.probe("reregistration_sequences")
		return nil
	}
	if len(o.Ops) != 1 {
		infra("C14: expected one op observation, got %d", len(o.Ops))
	}
	op := o.Ops[0]
	if !op.Returned {
		return []*Violation{mkViolation(b, "NO_RETURN", "", "the query did not return although the run terminated", o)}
	}
	if exp.Error {
		if op.NewErr == "" && op.ExecErr == "" {
			return []*Violation{mkViolation(b, "IMMEDIATE_QUALIFIER_ACCEPTED", "", "ASYNC/SPIN/SPINASYNC on an immediate function did not fail: rows="+compact(op.Rows), o)}
		}
		return nil
	}
	if op.NewErr != "" || op.ExecErr != "" {
		return []*Violation{mkViolation(b, "UNEXPECTED_ERROR", "", "New/Exec failed: "+op.NewErr+op.ExecErr, o)}
	}
	// completion and exactly-once accounting, per call site
	for _, s := range exp.Sites {
		var got []string
		unfinishedAtReturn, neverFinished := 0, 0
		for _, c := range o.Calls {
			if c.ID != s.ID {
				continue
			}
			got = append(got, c.Arg)
			if c.SeqEnd == 0 {
				neverFinished++
			} else if c.SeqEnd > op.SeqReturn {
				unfinishedAtReturn++
			}
		}
		sort.Strings(got)
		if !exp.CompletionOnly && strings.Join(got, "|") != strings.Join(s.Args, "|") {
			return []*Violation{mkViolation(b, "CALL_COUNT", "kind="+s.Kind, fmt.Sprintf("%s call site %d: expected invocations %v, observed %v", s.Kind, s.ID, s.Args, got), o)}
		}
		if neverFinished > 0 {
			return []*Violation{mkViolation(b, "CALL_NEVER_FINISHED", "kind="+s.Kind, fmt.Sprintf("%s call site %d: %d invocation(s) never finished", s.Kind, s.ID, neverFinished), o)}
		}
		if s.Kind != "spin" && unfinishedAtReturn > 0 {
			return []*Violation{mkViolation(b, "INCOMPLETE_AT_RETURN", "kind="+s.Kind, fmt.Sprintf("%s call site %d: %d invocation(s) had not completed when Exec returned", s.Kind, s.ID, unfinishedAtReturn), o)}
		}
		if s.Kind == "spin" && unfinishedAtReturn > 0 {
			r.Stats.probe("spin_still_running_at_return")
		}
		if s.Kind == "async" || s.Kind == "spinasync" {
			r.Stats.probe("async_sites_checked")
		}
	}
	got := normJSON(op.Rows)
	if exp.Place == "once_in_join_on" {
		// a join leaves the row order open
		if ga, ok := asArray(got); ok && multisetEqual(ga, exp.Rows) {
			got = any(exp.Rows)
		}
	}
	if !exp.CompletionOnly && !jsonEqual(got, exp.Rows) {
		cls := "ROWS_MISMATCH"
		if len(op.Leaks) > 0 {
			cls = "UNRESOLVED_SLOT_IN_RESULT"
		}
		return []*Violation{mkViolation(b, cls, "", fmt.Sprintf("expected %s\n got %s", canonText(exp.Rows), compact(op.Rows)), o)}
	}
	if string(op.Rows) != string(op.RowsAfter) {
		return []*Violation{mkViolation(b, "RESULT_CHANGED_AFTER_RETURN", "", fmt.Sprintf("at return %s\n after drain %s", compact(op.Rows), compact(op.RowsAfter)), o)}
	}
	if o.Sim.Spawns > 0 && o.Sim.Contended > 0 {
		r.Stats.probe("ran_with_concurrent_tasks")
	}
	return nil
}

func corpusC14() []*Bundle {
	doc := map[string]any{"t": []any{
		map[string]any{"id": 1.0, "a": 10.0, "s": "x", "n": []any{map[string]any{"v": 1.0, "w": "p"}}},
		map[string]any{"id": 2.0, "a": 20.0, "s": "y", "n": []any{}},
	}}
	mk := func(q string, exp c14Expect, lat []casefmt.LatRule, strat string) *Bundle {
		c := oneClientCase("C14", casefmt.SimConfig{Strategy: strat, Seed: 7, WalkP: 0.5, MapPolicy: "sorted"}, doc, casefmt.Op{Doc: 0, Vars: -1, Query: q})
		c.Stubs.Lat = lat
		if exp.Rows == nil {
			exp.Rows = []any{}
		}
		return &Bundle{Prop: "C14", Kind: "corpus", Case: c, Expect: mustJSON(exp), Tags: []string{"corpus"}}
	}
	var out []*Bundle
	for _, strat := range []string{"np", "walk"} {
		out = append(out,
			mk("SELECT id, ASYNC.fx(1, a) AS x FROM t", c14Expect{
				Rows:  []any{map[string]any{"id": 1.0, "x": 1010.0}, map[string]any{"id": 2.0, "x": 1020.0}},
				Sites: []c14Site{{ID: 1, Kind: "async", Args: []string{"n:10", "n:20"}}},
			}, []casefmt.LatRule{{ID: 1, Call: 0, Ns: 60000000000}}, strat),
			mk("SELECT id, SPINASYNC.fx(1, a), SPIN.fx(2, a) FROM t", c14Expect{
				Rows:  []any{map[string]any{"id": 1.0}, map[string]any{"id": 2.0}},
				Sites: []c14Site{{ID: 1, Kind: "spinasync", Args: []string{"n:10", "n:20"}}, {ID: 2, Kind: "spin", Args: []string{"n:10", "n:20"}}},
			}, []casefmt.LatRule{{ID: 1, Call: -1, Ns: 1000000}, {ID: 2, Call: -1, Ns: 1000000000}}, strat),
			mk("SELECT id, ONCE.fx(1, a) AS o FROM t", c14Expect{
				Rows:  []any{map[string]any{"id": 1.0, "o": 1010.0}, map[string]any{"id": 2.0, "o": 1010.0}},
				Sites: []c14Site{{ID: 1, Kind: "once", Args: []string{"n:10"}}},
			}, nil, strat),
			mk("SELECT ASYNC.imm(1, a) AS x FROM t", c14Expect{Error: true}, nil, strat),
			mk("SELECT SPIN.imm(1, a) FROM t", c14Expect{Error: true}, nil, strat),
			mk("SELECT SPINASYNC.imm(1, a) FROM t", c14Expect{Error: true}, nil, strat),
		)
	}
	return out
}

func init() {
	register(&Property{
		ID: "C14", Plain: true, Level: "exploration",
		Rule:   "cases = rapid-generated (table 0-6 rows, 1-6 select items mixing plain/ASYNC/SPIN/SPINASYNC/ONCE/immediate-qualified stub calls, placement top/derived/CTE/CTE chain/row-scoped subquery/subquery inside a derived table or CTE/UNION branch/EXISTS; GLOBAL calls of the same functions; ONCE with a NULL result; colliding output aliases; registration sequences in which a name becomes immediate; batching functions that wait for their sibling invocations over 2-130 rows; latency pattern, schedule strategy np/walk/pct/sync, map-order policy) plus a fixed corpus; one OS process per simulated run; a case counts as non-trivial when >=2 tasks were runnable at some yield, or a fault fired, or a non-identity map order was applied; distinct = distinct case-file hash; differential cases: 17 statement shapes in which a later stage consumes the ASYNC column (DISTINCT, ORDER BY, join over a derived table, FUSE, AWAIT over a nested select, LIMIT, second Exec) run with and without the qualifier; array-of-arrays sources; re-registration histories; failing rows (returned error, panic(error), panic(string)) of the query and of nested evaluations (row-scoped subquery at two depths, EXISTS, inner arrays) with calls in flight: none still runs or starts once Exec has reported the failure; ASYNC calls made from a join's ON (incl. the inner join of a three-table join) are complete at return; 28 differential shapes",
		Corpus: corpusC14, Gen: genC14, Eval: evalC14, QuickChecks: 1500,
		Assumptions: []string{
			"stub user functions (fx/fid/imm) stand in for user code; their latency is simulated Sleep",
			"preemption granularity is the statement; sync primitives' blocking is modelled around the real primitives",
			"ONCE is exercised once per function name per query (the only form the statement fixes)",
		},
		Components: map[string][]string{
			"real": {"genql (instrumented copy of /repo working tree)", "sqlparser", "compare", "Go runtime"},
			"stub": {"user functions fx/fid/imm", "goroutine scheduler (zzsim)", "clock (zzsim)", "blocking of sync.Mutex/RWMutex/WaitGroup (modelled; real primitive executed once it cannot block)"},
		},
	})
}
