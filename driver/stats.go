package main

import (
	"crypto/sha256"
	"encoding/hex"
	"encoding/json"
	"sort"
	"sync"

	"verif/casefmt"
)

// Stats are measured counters of what a worker actually executed; they are
// merged across workers into the evidence file.
type Stats struct {
	mu             sync.Mutex
	Evaluations    int64            `json:"evaluations"` // child processes run
	Bundles        int64            `json:"bundles"`     // generated cases judged
	Nontrivial     map[string]bool  `json:"nontrivial"`  // hashes of distinct non-trivial case files
	Interleavings  map[string]bool  `json:"interleavings"`
	FaultsFired    map[string]int64 `json:"faults_fired"`
	LatencyCalls   int64            `json:"latency_calls"`
	StubCalls      int64            `json:"stub_calls"`
	Preemptions    int64            `json:"preemptions"`
	Contended      int64            `json:"contended_yields"`
	Switches       int64            `json:"switches"`
	Spawns         int64            `json:"spawns"`
	MutexContended int64            `json:"mutex_contended"`
	MapIters       int64            `json:"map_iters"`
	MapPermuted    int64            `json:"map_orders_applied"`
	MapTies        int64            `json:"map_ties"`
	ClockJumps     int64            `json:"clock_jumps"`
	Steps          int64            `json:"steps"`
	SimTimeNs      int64            `json:"sim_time_ns_total"`
	RaceRuns       int64            `json:"race_runs"`
	RaceReports    int64            `json:"race_reports"`
	Outcomes       map[string]int64 `json:"outcomes"`
	Probes         map[string]int64 `json:"probes"`
	Known          map[string]int64 `json:"known_findings_hit"`
	ChildWallMs    float64          `json:"child_wall_ms"`
	Samples        []any            `json:"samples"`
	Shrinks        int64            `json:"shrink_evaluations"`
	SeedsUsed      int64            `json:"rapid_seeds_used"`
	Kinds          map[string]int64 `json:"bundle_kinds"`
}

func newStats() *Stats {
	return &Stats{Nontrivial: map[string]bool{}, Interleavings: map[string]bool{}, FaultsFired: map[string]int64{},
		Outcomes: map[string]int64{}, Probes: map[string]int64{}, Known: map[string]int64{}, Kinds: map[string]int64{}}
}

func caseHash(c *casefmt.Case) string {
	b, _ := json.Marshal(c)
	h := sha256.Sum256(b)
	return hex.EncodeToString(h[:8])
}

func (s *Stats) noteRun(c *casefmt.Case, o *casefmt.Obs, race bool) {
	s.mu.Lock()
	defer s.mu.Unlock()
	s.Evaluations++
	s.ChildWallMs += o.WallMs
	if race {
		s.RaceRuns++
		s.RaceReports += int64(len(o.Races))
	}
	if o.Fatal != "" {
		s.Outcomes["fatal"]++
		return
	}
	s.Outcomes[o.Sim.Outcome]++
	s.Preemptions += o.Sim.Preemptions
	s.Contended += o.Sim.Contended
	s.Switches += o.Sim.Switches
	s.Spawns += o.Sim.Spawns
	s.MutexContended += o.Sim.MutexContended
	s.MapIters += o.Sim.MapIters
	s.MapPermuted += o.Sim.MapPermuted
	s.MapTies += o.Sim.MapTies
	s.ClockJumps += o.Sim.ClockJumps
	s.Steps += o.Sim.Steps
	s.SimTimeNs += o.Sim.SimTimeNs
	fired := 0
	for _, cl := range o.Calls {
		s.StubCalls++
		if cl.Faulted != "" {
			s.FaultsFired[cl.Faulted]++
			fired++
		}
		if cl.NsEnd > cl.NsStart {
			s.LatencyCalls++
		}
	}
	if len(o.Sim.Panics) > 0 {
		s.Outcomes["task_panic"]++
	}
	if o.Sim.Contended > 0 || fired > 0 || o.Sim.MapPermuted > 0 {
		s.Nontrivial[caseHash(c)] = true
	}
	if o.Sim.Switches > 1 {
		s.Interleavings[o.Sim.InterleaveHash] = true
	}
}

func (s *Stats) probe(name string) {
	s.mu.Lock()
	s.Probes[name]++
	s.mu.Unlock()
}

func (s *Stats) kind(k string) {
	s.mu.Lock()
	if s.Kinds == nil {
		s.Kinds = map[string]int64{}
	}
	s.Kinds[k]++
	s.mu.Unlock()
}

func (s *Stats) known(id string) {
	s.mu.Lock()
	s.Known[id]++
	s.mu.Unlock()
}

func (s *Stats) sample(v any) {
	s.mu.Lock()
	if len(s.Samples) < 3 {
		s.Samples = append(s.Samples, v)
	}
	s.mu.Unlock()
}

func (s *Stats) merge(o *Stats) {
	s.Evaluations += o.Evaluations
	s.Bundles += o.Bundles
	for k := range o.Nontrivial {
		s.Nontrivial[k] = true
	}
	for k := range o.Interleavings {
		s.Interleavings[k] = true
	}
	for k, v := range o.FaultsFired {
		s.FaultsFired[k] += v
	}
	s.LatencyCalls += o.LatencyCalls
	s.StubCalls += o.StubCalls
	s.Preemptions += o.Preemptions
	s.Contended += o.Contended
	s.Switches += o.Switches
	s.Spawns += o.Spawns
	s.MutexContended += o.MutexContended
	s.MapIters += o.MapIters
	s.MapPermuted += o.MapPermuted
	s.MapTies += o.MapTies
	s.ClockJumps += o.ClockJumps
	s.Steps += o.Steps
	s.SimTimeNs += o.SimTimeNs
	s.RaceRuns += o.RaceRuns
	s.RaceReports += o.RaceReports
	for k, v := range o.Outcomes {
		s.Outcomes[k] += v
	}
	for k, v := range o.Probes {
		s.Probes[k] += v
	}
	for k, v := range o.Known {
		s.Known[k] += v
	}
	s.ChildWallMs += o.ChildWallMs
	s.Shrinks += o.Shrinks
	s.SeedsUsed += o.SeedsUsed
	for k, v := range o.Kinds {
		s.Kinds[k] += v
	}
	for _, x := range o.Samples {
		if len(s.Samples) < 4 {
			s.Samples = append(s.Samples, x)
		}
	}
}

func sortedKeys[V any](m map[string]V) []string {
	ks := make([]string, 0, len(m))
	for k := range m {
		ks = append(ks, k)
	}
	sort.Strings(ks)
	return ks
}
