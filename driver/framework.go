package main

import (
	"encoding/json"
	"fmt"
	"os"
	"regexp"
	"sort"
	"strings"

	"pgregory.net/rapid"

	"verif/casefmt"
)

// A Bundle is everything one judged case consists of: the case file handed to
// the child plus the property-specific expectation computed by the generator.
// Eval is a pure function of (bundle, code under test), so a bundle is also the
// replay file.
type Bundle struct {
	Prop   string          `json:"prop"`
	Kind   string          `json:"kind,omitempty"`
	Case   casefmt.Case    `json:"case"`
	Expect json.RawMessage `json:"expect,omitempty"`
	Tags   []string        `json:"tags,omitempty"`
}

func (b *Bundle) hasTag(t string) bool {
	for _, x := range b.Tags {
		if x == t {
			return true
		}
	}
	return false
}

type Violation struct {
	Prop   string        `json:"prop"`
	Class  string        `json:"class"`
	Sig    string        `json:"sig"` // stable under shrinking: class + coarse site
	Detail string        `json:"detail"`
	Bundle *Bundle       `json:"bundle"`
	Obs    *casefmt.Obs  `json:"obs,omitempty"`
	Extra  []casefmt.Obs `json:"extra_obs,omitempty"`
}

type Property struct {
	ID     string
	Race   bool // needs the -race harness
	Plain  bool // needs the plain harness
	Level  string
	Rule   string
	Corpus func() []*Bundle
	Gen    func(t *rapid.T) *Bundle
	Eval   func(b *Bundle, r *Runner) []*Violation
	// QuickChecks is the number of generated bundles per worker in the quick tier.
	QuickChecks int
	Assumptions []string
	Components  map[string][]string
}

var properties = map[string]*Property{}

func register(p *Property) { properties[p.ID] = p }

// ---------------------------------------------------------------- known findings

type KnownFinding struct {
	ID       string   `json:"id"`
	Property string   `json:"property"`
	Status   string   `json:"status"`              // "known" | "fixed"
	Commit   string   `json:"commit,omitempty"`    // for fixed entries
	SigRegex string   `json:"sig_regex,omitempty"` // must match Violation.Sig
	TagsAll  []string `json:"tags_all,omitempty"`  // every tag must be present on the bundle
	What     string   `json:"what"`
	Replay   string   `json:"replay,omitempty"` // committed replay case reproducing it
	re       *regexp.Regexp
}

type KnownFile struct {
	Findings []*KnownFinding `json:"findings"`
}

func loadKnown(path string) []*KnownFinding {
	b, err := os.ReadFile(path)
	if err != nil {
		if os.IsNotExist(err) {
			return nil
		}
		infra("cannot read %s: %v", path, err)
	}
	var kf KnownFile
	if err := json.Unmarshal(b, &kf); err != nil {
		infra("bad known findings file %s: %v", path, err)
	}
	for _, k := range kf.Findings {
		if k.SigRegex != "" {
			re, err := regexp.Compile(k.SigRegex)
			if err != nil {
				infra("bad sig_regex in %s: %v", k.ID, err)
			}
			k.re = re
		}
	}
	return kf.Findings
}

// matchKnown returns the listed, still-open finding that covers v, if any. A
// "fixed" entry suppresses nothing.
func matchKnown(known []*KnownFinding, v *Violation) *KnownFinding {
	for _, k := range known {
		if k.Status != "known" || k.Property != v.Prop {
			continue
		}
		if k.re != nil && !k.re.MatchString(v.Sig) {
			continue
		}
		ok := true
		for _, t := range k.TagsAll {
			if v.Bundle == nil || !v.Bundle.hasTag(t) {
				ok = false
				break
			}
		}
		if ok {
			return k
		}
	}
	return nil
}

// ---------------------------------------------------------------- helpers for oracles

func mkViolation(b *Bundle, class, site, detail string, obs *casefmt.Obs) *Violation {
	sig := class
	if site != "" {
		sig += " " + site
	}
	return &Violation{Prop: b.Prop, Class: class, Sig: sig, Detail: detail, Bundle: b, Obs: trimObs(obs)}
}

func trimObs(o *casefmt.Obs) *casefmt.Obs {
	if o == nil {
		return nil
	}
	c := *o
	if len(c.Sim.Events) > 40 {
		c.Sim.Events = c.Sim.Events[:40]
	}
	if len(c.Calls) > 60 {
		c.Calls = c.Calls[:60]
	}
	if len(c.RaceTexts) > 2 {
		c.RaceTexts = c.RaceTexts[:2]
	}
	return &c
}

// processHealth reports the violations every property's child run is subject
// to when it asks for them: the process must survive, the run must terminate,
// no panic may escape the API or kill a background goroutine.
func processHealth(b *Bundle, o *casefmt.Obs) []*Violation {
	var vs []*Violation
	if o.Fatal != "" {
		cls := "FATAL"
		if strings.Contains(o.Fatal, "stack overflow") {
			cls = "FATAL_STACK_OVERFLOW"
		}
		vs = append(vs, mkViolation(b, cls, "", o.Fatal+"\n"+o.Stderr, o))
		return vs
	}
	switch o.Sim.Outcome {
	case "deadlock":
		var who []string
		for _, t := range o.Sim.Tasks {
			if t.State == "blocked" {
				who = append(who, fmt.Sprintf("task %d (%s) on %s since step %d", t.ID, t.Name, t.BlockedOn, t.Since))
			}
		}
		vs = append(vs, mkViolation(b, "DEADLOCK", "", strings.Join(who, "; "), o))
	case "step_budget":
		vs = append(vs, mkViolation(b, "STEP_BUDGET", "", fmt.Sprintf("run exceeded the step budget after %d yields", o.Sim.Steps), o))
	}
	for _, p := range o.Sim.Panics {
		if !p.Client {
			vs = append(vs, mkViolation(b, "BG_PANIC", taskSite(p.Name), fmt.Sprintf("panic unwound to the top of background task %d (%s): %s", p.Task, p.Name, p.Value), o))
		} else {
			vs = append(vs, mkViolation(b, "HARNESS_PANIC", "", p.Value+"\n"+p.Stack, o))
		}
	}
	for _, op := range o.Ops {
		if op.Panic != "" {
			vs = append(vs, mkViolation(b, "PANIC_ESCAPED", panicSite(op.PanicStack), fmt.Sprintf("client %d op %d: a panic escaped the API: %s", op.Client, op.Op, op.Panic), o))
		}
	}
	return vs
}

func taskSite(name string) string {
	// "go@plsql.go:1396" -> "go@plsql.go"
	if i := strings.LastIndex(name, ":"); i > 0 {
		return name[:i]
	}
	return name
}

var reStackFn = regexp.MustCompile(`genql\.(\(\*?\w+\)\.)?(\w+)`)

// panicSite extracts the innermost library function from a panic stack.
func panicSite(stack string) string {
	for _, l := range strings.Split(stack, "\n") {
		if strings.Contains(l, "genql.") && !strings.Contains(l, "zzsim") && !strings.Contains(l, "zzharness") && !strings.HasPrefix(l, "\t") {
			if m := reStackFn.FindString(l); m != "" {
				return "in " + m
			}
		}
	}
	return ""
}

func uniqSorted(xs []string) []string {
	sort.Strings(xs)
	out := xs[:0]
	for i, x := range xs {
		if i == 0 || xs[i-1] != x {
			out = append(out, x)
		}
	}
	return out
}

func mustJSON(v any) json.RawMessage {
	b, err := json.Marshal(v)
	if err != nil {
		panic(err)
	}
	return b
}

func compact(raw json.RawMessage) string {
	if len(raw) == 0 {
		return "<none>"
	}
	s := string(raw)
	if len(s) > 600 {
		s = s[:600] + "..."
	}
	return s
}
