// The driver is the judge: it generates cases (rapid is the sole choice
// source), runs them in harness children, applies the oracles, matches known
// findings, minimises violations (rapid shrinking), writes replay files and the
// evidence file.
//
//	driver run    -prop C14 -tier quick  ...   orchestrates N worker processes
//	driver worker -prop C14 -idx 3 ...          one rapid search loop
//	driver replay -file replays/C14-ab12.json   re-judges one bundle
package main

import (
	"crypto/sha256"
	"encoding/hex"
	"encoding/json"
	"flag"
	"fmt"
	"os"
	"os/exec"
	"path/filepath"
	"runtime"
	"sort"
	"strconv"
	"strings"
	"sync"
	"testing"
	"time"

	"pgregory.net/rapid"
)

type options struct {
	prop, tier, plain, race, tmp, modroot, out, verif, file string
	seed                                                    int64
	idx, workers, checks                                    int
	budget                                                  float64
	determinism                                             bool
}

type workerResult struct {
	Stats      *Stats       `json:"stats"`
	Violations []*Violation `json:"violations"`
	Infra      string       `json:"infra,omitempty"`
	Chunks     int          `json:"chunks"`
}

func main() {
	if len(os.Args) < 2 {
		fmt.Fprintln(os.Stderr, "usage: driver run|worker|replay ...")
		os.Exit(2)
	}
	mode := os.Args[1]
	var o options
	fs := flag.CommandLine
	fs.StringVar(&o.prop, "prop", "", "property id")
	fs.StringVar(&o.tier, "tier", "quick", "quick|thorough")
	fs.StringVar(&o.plain, "plain", "", "harness binary (no -race)")
	fs.StringVar(&o.race, "race", "", "harness binary (-race)")
	fs.StringVar(&o.tmp, "tmp", os.TempDir(), "scratch dir for case files")
	fs.StringVar(&o.modroot, "modroot", "", "scratch copy root")
	fs.StringVar(&o.out, "out", "", "output file")
	fs.StringVar(&o.verif, "verif", "/verif", "verif root")
	fs.StringVar(&o.file, "file", "", "replay file")
	fs.Int64Var(&o.seed, "seed", 1, "base seed")
	fs.IntVar(&o.idx, "idx", 0, "worker index")
	fs.IntVar(&o.workers, "workers", 0, "number of workers")
	fs.IntVar(&o.checks, "checks", 0, "generated bundles per worker (quick) / per chunk (thorough)")
	fs.Float64Var(&o.budget, "budget", 0, "thorough: wall-clock budget in seconds")
	fs.BoolVar(&o.determinism, "determinism", false, "self-test: run every case under GOMAXPROCS 1/4/16 and compare observations")
	testing.Init()
	if err := fs.Parse(os.Args[2:]); err != nil {
		os.Exit(2)
	}
	code := 2
	func() {
		defer func() {
			if r := recover(); r != nil {
				if ie, ok := r.(*InfraError); ok {
					fmt.Fprintln(os.Stderr, "INFRASTRUCTURE:", ie.Msg)
					code = 2
					return
				}
				panic(r)
			}
		}()
		switch mode {
		case "run":
			code = runMain(&o)
		case "worker":
			code = workerMain(&o)
		case "replay":
			code = replayMain(&o)
		default:
			fmt.Fprintln(os.Stderr, "unknown mode", mode)
		}
	}()
	os.Exit(code)
}

func splitmix(x uint64) uint64 {
	x += 0x9e3779b97f4a7c15
	z := x
	z = (z ^ (z >> 30)) * 0xbf58476d1ce4e5b9
	z = (z ^ (z >> 27)) * 0x94d049bb133111eb
	return z ^ (z >> 31)
}

func deriveSeed(base int64, idx, chunk int) uint64 {
	s := splitmix(uint64(base)*1000003 + uint64(idx)*7919 + uint64(chunk)*104729 + 1)
	if s == 0 {
		s = 1
	}
	return s
}

// ---------------------------------------------------------------- rapid TB

type simpleTB struct {
	failed bool
	logs   []string
}
type tbFailNow struct{}

func (t *simpleTB) Helper()      {}
func (t *simpleTB) Name() string { return "verif" }
func (t *simpleTB) Logf(f string, a ...any) {
	if len(t.logs) < 50 {
		t.logs = append(t.logs, fmt.Sprintf(f, a...))
	}
}
func (t *simpleTB) Log(a ...any)              { t.Logf("%s", fmt.Sprint(a...)) }
func (t *simpleTB) Skipf(f string, a ...any)  { panic(tbFailNow{}) }
func (t *simpleTB) Skip(a ...any)             { panic(tbFailNow{}) }
func (t *simpleTB) SkipNow()                  { panic(tbFailNow{}) }
func (t *simpleTB) Errorf(f string, a ...any) { t.failed = true; t.Logf(f, a...) }
func (t *simpleTB) Error(a ...any)            { t.failed = true; t.Log(a...) }
func (t *simpleTB) Fatalf(f string, a ...any) { t.failed = true; t.Logf(f, a...); panic(tbFailNow{}) }
func (t *simpleTB) Fatal(a ...any)            { t.failed = true; t.Log(a...); panic(tbFailNow{}) }
func (t *simpleTB) FailNow()                  { t.failed = true; panic(tbFailNow{}) }
func (t *simpleTB) Fail()                     { t.failed = true }
func (t *simpleTB) Failed() bool              { return t.failed }

// ---------------------------------------------------------------- worker

func workerMain(o *options) int {
	p := properties[o.prop]
	if p == nil {
		infra("unknown property %q", o.prop)
	}
	stats := newStats()
	runner := &Runner{Plain: o.plain, Race: o.race, TmpDir: o.tmp, ModRoot: o.modroot, Stats: stats, Determinism: o.determinism}
	known := loadKnown(filepath.Join(o.verif, "known_findings.json"))
	res := &workerResult{Stats: stats}
	var infraMsg string

	judge := func(b *Bundle) (real []*Violation) {
		vs := p.Eval(b, runner)
		for _, v := range vs {
			if k := matchKnown(known, v); k != nil {
				stats.known(k.ID)
				continue
			}
			real = append(real, v)
		}
		return real
	}
	safeJudge := func(b *Bundle) (real []*Violation, ok bool) {
		defer func() {
			if r := recover(); r != nil {
				if ie, isInfra := r.(*InfraError); isInfra {
					infraMsg = ie.Msg
					ok = false
					return
				}
				panic(r)
			}
		}()
		return judge(b), true
	}

	deadline := time.Now().Add(time.Duration(o.budget * float64(time.Second)))
	// fixed corpus first (seed-independent); shared out between workers
	{
		var corpus []*Bundle
		if p.Corpus != nil {
			corpus = p.Corpus()
		}
		// committed replay cases of fixed defects and known findings are
		// ordinary corpus members: fixed ones must pass, known ones must match
		corpus = append(corpus, loadFindingBundles(o.verif, p.ID)...)
		for i, b := range corpus {
			if i%o.workers != o.idx {
				continue
			}
			stats.Bundles++
			vs, ok := safeJudge(b)
			if !ok {
				break
			}
			if len(vs) > 0 {
				res.Violations = append(res.Violations, vs[0])
			}
			if len(stats.Samples) < 1 && o.idx == 0 {
				stats.sample(map[string]any{"source": "corpus", "bundle": b})
			}
		}
	}
	chunk := 0
	for infraMsg == "" && len(res.Violations) == 0 && p.Gen != nil {
		if o.tier == "thorough" && chunk > 0 && time.Now().After(deadline) {
			break
		}
		if o.tier != "thorough" && chunk > 0 {
			break
		}
		seed := deriveSeed(o.seed, o.idx, chunk)
		stats.SeedsUsed++
		flag.Set("rapid.seed", strconv.FormatUint(seed, 10))
		flag.Set("rapid.checks", strconv.Itoa(o.checks))
		flag.Set("rapid.nofailfile", "true")
		flag.Set("rapid.shrinktime", envOr("VERIF_SHRINK_TIME", "60s"))
		var last *Violation
		failing := false
		tb := &simpleTB{}
		func() {
			defer func() {
				if r := recover(); r != nil {
					if _, ok := r.(tbFailNow); ok {
						return
					}
					panic(r)
				}
			}()
			rapid.Check(tb, func(t *rapid.T) {
				if infraMsg != "" {
					t.Skip("infrastructure failure")
				}
				if o.tier == "thorough" && !failing && time.Now().After(deadline) {
					t.Skip("budget exhausted")
				}
				b := p.Gen(t)
				b.Prop = p.ID
				if !failing {
					stats.kind(b.Kind)
				}
				if failing {
					stats.Shrinks++
				} else {
					stats.Bundles++
				}
				vs, ok := safeJudge(b)
				if !ok {
					t.Skip("infrastructure failure")
				}
				if !failing && len(stats.Samples) < 2 && len(vs) == 0 {
					stats.sample(map[string]any{"source": "generated", "bundle": b})
				}
				if len(vs) > 0 {
					failing = true
					last = vs[0]
					t.Fatalf("%s", vs[0].Sig)
				}
			})
		}()
		if last != nil {
			res.Violations = append(res.Violations, last)
		}
		chunk++
	}
	res.Chunks = chunk
	res.Infra = infraMsg
	if o.determinism {
		stats.Probes["determinism_triples_compared"] += runner.DetCompared
	}
	b, err := json.Marshal(res)
	if err != nil {
		infra("cannot encode worker result: %v", err)
	}
	if err := os.WriteFile(o.out, b, 0o644); err != nil {
		infra("cannot write worker result: %v", err)
	}
	if infraMsg != "" {
		fmt.Fprintln(os.Stderr, "INFRASTRUCTURE:", infraMsg)
		return 2
	}
	return 0
}

// ---------------------------------------------------------------- orchestrator

func runMain(o *options) int {
	p := properties[o.prop]
	if p == nil {
		infra("unknown property %q", o.prop)
	}
	start := time.Now()
	workers := o.workers
	if workers <= 0 {
		workers = runtime.NumCPU()
		if workers > 16 {
			workers = 16
		}
	}
	checks := o.checks
	if checks <= 0 {
		checks = p.QuickChecks
		if checks <= 0 {
			checks = 60
		}
		if o.tier == "thorough" {
			checks *= 2
		}
	}
	budget := o.budget
	if o.tier == "thorough" && budget <= 0 {
		budget = 900
		if v := os.Getenv("VERIF_BUDGET_S"); v != "" {
			if f, err := strconv.ParseFloat(v, 64); err == nil {
				budget = f
			}
		}
	}
	self, _ := os.Executable()
	var wg sync.WaitGroup
	results := make([]*workerResult, workers)
	errs := make([]string, workers)
	for i := 0; i < workers; i++ {
		wg.Add(1)
		go func(i int) {
			defer wg.Done()
			out := filepath.Join(o.tmp, fmt.Sprintf("worker-%d.json", i))
			args := []string{"worker", "-prop", o.prop, "-tier", o.tier, "-plain", o.plain, "-race", o.race, "-tmp", o.tmp,
				"-modroot", o.modroot, "-verif", o.verif, "-seed", strconv.FormatInt(o.seed, 10), "-idx", strconv.Itoa(i),
				"-workers", strconv.Itoa(workers), "-checks", strconv.Itoa(checks), "-budget", fmt.Sprint(budget), "-out", out}
			if o.determinism {
				args = append(args, "-determinism")
			}
			cmd := exec.Command(self, args...)
			cmd.Stderr = os.Stderr
			cmd.Stdout = os.Stderr
			err := cmd.Run()
			b, rerr := os.ReadFile(out)
			if rerr != nil {
				errs[i] = fmt.Sprintf("worker %d produced no result (%v, %v)", i, err, rerr)
				return
			}
			var wr workerResult
			if jerr := json.Unmarshal(b, &wr); jerr != nil {
				errs[i] = fmt.Sprintf("worker %d result unreadable: %v", i, jerr)
				return
			}
			results[i] = &wr
			if wr.Infra != "" {
				errs[i] = wr.Infra
			}
		}(i)
	}
	wg.Wait()
	total := newStats()
	var violations []*Violation
	infraMsgs := []string{}
	for i, r := range results {
		if errs[i] != "" {
			infraMsgs = append(infraMsgs, errs[i])
		}
		if r == nil {
			continue
		}
		total.merge(r.Stats)
		violations = append(violations, r.Violations...)
	}
	// one line per known finding that reproduced on this run
	known := loadKnown(filepath.Join(o.verif, "known_findings.json"))
	for _, k := range known {
		if k.Status == "known" && k.Property == p.ID && total.Known[k.ID] > 0 {
			fmt.Printf("KNOWN-FINDING: property=%s %s [%s, matched %d case(s) this run]\n", p.ID, k.What, k.ID, total.Known[k.ID])
		}
	}
	// distinct violations by signature
	seen := map[string]bool{}
	var distinct []*Violation
	for _, v := range violations {
		if !seen[v.Sig] {
			seen[v.Sig] = true
			distinct = append(distinct, v)
		}
	}
	sort.Slice(distinct, func(i, j int) bool { return distinct[i].Sig < distinct[j].Sig })
	replayDir := filepath.Join(o.verif, "replays")
	if v := os.Getenv("VERIF_REPLAY_DIR"); v != "" {
		replayDir = v
	}
	os.MkdirAll(replayDir, 0o755)
	for _, v := range distinct {
		path := writeReplay(replayDir, v)
		fmt.Printf("VIOLATION property=%s replay=%s\n", p.ID, path)
		fmt.Printf("  class: %s\n  detail: %s\n", v.Sig, firstN(v.Detail, 1500))
	}
	wall := time.Since(start).Seconds()
	if len(infraMsgs) > 0 {
		for _, m := range infraMsgs {
			fmt.Fprintln(os.Stderr, "INFRASTRUCTURE:", m)
		}
		return 2
	}
	writeEvidence(o, p, total, len(distinct), wall, workers)
	fmt.Printf("%s %s: %d bundles, %d simulated runs, %d distinct non-trivial, %d interleavings, %.1fs, violations=%d\n",
		p.ID, o.tier, total.Bundles, total.Evaluations, len(total.Nontrivial), len(total.Interleavings), wall, len(distinct))
	if len(distinct) > 0 {
		return 1
	}
	return 0
}

// loadFindingBundles reads the committed replay cases findings/<ID>-*.json.
func loadFindingBundles(verif, id string) []*Bundle {
	files, _ := filepath.Glob(filepath.Join(verif, "findings", id+"-*.json"))
	sort.Strings(files)
	var out []*Bundle
	for _, f := range files {
		b, err := os.ReadFile(f)
		if err != nil {
			infra("cannot read %s: %v", f, err)
		}
		var rf replayFile
		if err := json.Unmarshal(b, &rf); err != nil || rf.Bundle == nil {
			infra("bad finding file %s: %v", f, err)
		}
		rf.Bundle.Prop = id
		rf.Bundle.Tags = append(rf.Bundle.Tags, "finding:"+strings.TrimSuffix(filepath.Base(f), ".json"))
		out = append(out, rf.Bundle)
	}
	return out
}

func firstN(s string, n int) string {
	if len(s) > n {
		return s[:n] + "..."
	}
	return s
}

type replayFile struct {
	Property string  `json:"property"`
	Sig      string  `json:"sig"`
	Detail   string  `json:"detail"`
	Bundle   *Bundle `json:"bundle"`
	Obs      any     `json:"observation,omitempty"`
	Written  string  `json:"written"`
}

func writeReplay(dir string, v *Violation) string {
	b, _ := json.Marshal(v.Bundle)
	h := sha256.Sum256(append(b, v.Sig...))
	path := filepath.Join(dir, fmt.Sprintf("%s-%s.json", v.Prop, hex.EncodeToString(h[:5])))
	rf := replayFile{Property: v.Prop, Sig: v.Sig, Detail: v.Detail, Bundle: v.Bundle, Obs: v.Obs, Written: time.Now().UTC().Format(time.RFC3339)}
	out, _ := json.MarshalIndent(&rf, "", " ")
	os.WriteFile(path, out, 0o644)
	return path
}

func replayMain(o *options) int {
	b, err := os.ReadFile(o.file)
	if err != nil {
		infra("cannot read replay file: %v", err)
	}
	var rf replayFile
	if err := json.Unmarshal(b, &rf); err != nil || rf.Bundle == nil {
		infra("bad replay file %s: %v", o.file, err)
	}
	p := properties[rf.Property]
	if p == nil {
		infra("unknown property %q in replay file", rf.Property)
	}
	stats := newStats()
	runner := &Runner{Plain: o.plain, Race: o.race, TmpDir: o.tmp, ModRoot: o.modroot, Stats: stats}
	vs := p.Eval(rf.Bundle, runner)
	same := false
	for _, v := range vs {
		fmt.Printf("reproduced: %s\n  %s\n", v.Sig, firstN(v.Detail, 1500))
		if v.Sig == rf.Sig {
			same = true
		}
	}
	if same {
		fmt.Printf("VIOLATION property=%s replay=%s\n", rf.Property, o.file)
		return 1
	}
	if len(vs) > 0 {
		fmt.Printf("replay produced %d violation(s) but not the recorded signature %q\n", len(vs), rf.Sig)
		fmt.Printf("VIOLATION property=%s replay=%s\n", rf.Property, o.file)
		return 1
	}
	fmt.Printf("replay of %s: property held (recorded signature %q not reproduced)\n", o.file, rf.Sig)
	return 0
}

// ---------------------------------------------------------------- evidence

func writeEvidence(o *options, p *Property, s *Stats, violations int, wall float64, workers int) {
	if o.out == "" {
		return
	}
	samples := s.Samples
	if len(samples) == 0 {
		samples = []any{"no sample recorded"}
	}
	perHour := 0.0
	if wall > 0 {
		perHour = float64(s.Evaluations) / wall * 3600
	}
	zeroProbes := []string{}
	for _, k := range sortedKeys(s.Probes) {
		if s.Probes[k] == 0 {
			zeroProbes = append(zeroProbes, k)
		}
	}
	cov := map[string]any{
		"evaluations":            s.Evaluations,
		"distinct_nontrivial":    len(s.Nontrivial),
		"rule":                   p.Rule,
		"samples":                samples,
		"bundles_judged":         s.Bundles,
		"shrink_evaluations":     s.Shrinks,
		"runs_per_hour":          perHour,
		"sim_time_ns_total":      s.SimTimeNs,
		"steps_total":            s.Steps,
		"faults_fired":           s.FaultsFired,
		"latency_calls":          s.LatencyCalls,
		"stub_calls":             s.StubCalls,
		"preemptions":            s.Preemptions,
		"contended_yields":       s.Contended,
		"context_switches":       s.Switches,
		"goroutines_spawned":     s.Spawns,
		"mutex_contended":        s.MutexContended,
		"distinct_interleavings": len(s.Interleavings),
		"map_iterations":         s.MapIters,
		"map_orders_applied":     s.MapPermuted,
		"map_key_ties":           s.MapTies,
		"clock_jumps":            s.ClockJumps,
		"race_runs":              s.RaceRuns,
		"race_reports":           s.RaceReports,
		"outcomes":               s.Outcomes,
		"probes":                 s.Probes,
		"probes_stuck_at_zero":   zeroProbes,
		"known_findings_hit":     s.Known,
		"workers":                workers,
		"base_seed":              o.seed,
		"rapid_seeds_used":       s.SeedsUsed,
		"bundle_kinds":           s.Kinds,
		"components":             p.Components,
		"exhaustive":             false,
	}
	ev := map[string]any{
		"property_id": p.ID,
		"tier":        o.tier,
		"seed":        o.seed,
		"level":       p.Level,
		"coverage":    cov,
		"assumptions": p.Assumptions,
		"wall_s":      wall,
		"violations":  violations,
	}
	b, _ := json.MarshalIndent(ev, "", " ")
	os.MkdirAll(filepath.Dir(o.out), 0o755)
	if err := os.WriteFile(o.out, b, 0o644); err != nil {
		infra("cannot write evidence: %v", err)
	}
}

var _ = strings.TrimSpace
