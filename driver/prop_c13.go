package main

import (
	"encoding/json"
	"fmt"
	"strings"

	"pgregory.net/rapid"

	"verif/casefmt"
)

// C13 — concurrent queries are free of data races, crashes and cross-talk.

type c13Expect struct {
	// OrderOpen[client][op]: the query leaves row order open (grouping / join)
	OrderOpen [][]bool `json:"order_open"`
	Config    string   `json:"config"`
}

// c13Doc builds one document. tag makes column names unique per document so
// that selector texts are fresh (cold cache) when asked for.
func c13Doc(t *rapid.T, tag string) map[string]any {
	nt := rapid.IntRange(1, 4).Draw(t, "nt")
	nu := rapid.IntRange(0, 3).Draw(t, "nu")
	rows := []any{}
	for i := 0; i < nt; i++ {
		nn := rapid.IntRange(0, 2).Draw(t, "nn")
		nested := []any{}
		for j := 0; j < nn; j++ {
			nested = append(nested, map[string]any{"v" + tag: float64(rapid.IntRange(0, 5).Draw(t, "v"))})
		}
		rows = append(rows, map[string]any{
			"id" + tag: float64(rapid.IntRange(1, 3).Draw(t, "id")),
			"a" + tag:  float64(rapid.IntRange(0, 4).Draw(t, "a") * 10),
			"s" + tag:  rapid.SampledFrom([]string{"x", "y"}).Draw(t, "s"),
			"n" + tag:  nested,
			// a wide column: whole rows print to more than a hash block (64 bytes)
			"pad" + tag: strings.Repeat(rapid.SampledFrom([]string{"p", "q"}).Draw(t, "pad"), 70),
		})
	}
	us := []any{}
	for i := 0; i < nu; i++ {
		us = append(us, map[string]any{"id" + tag: float64(rapid.IntRange(1, 3).Draw(t, "uid")), "b" + tag: rapid.SampledFrom([]string{"p", "q"}).Draw(t, "b")})
	}
	doc := map[string]any{"t" + tag: rows, "u" + tag: us}
	// now and then a table with more distinct keys than any pool, batch or semaphore is likely to be sized for
	if n := rapid.SampledFrom([]int{0, 0, 0, 0, 70, 150, 300}).Draw(t, "wide_rows"); n > 0 {
		w := make([]any, n)
		for i := range w {
			w[i] = map[string]any{"id" + tag: float64(i + 1), "a" + tag: 10.0}
		}
		doc["w"+tag] = w
	} else {
		doc["w"+tag] = []any{map[string]any{"id" + tag: 1.0, "a" + tag: 10.0}, map[string]any{"id" + tag: 2.0, "a" + tag: 10.0}}
	}
	return doc
}

// c13Query draws one query over a document built with the given tag.
func c13Query(t *rapid.T, tag string, site int, readOnlyOnly bool, onlyKind ...string) (q string, orderOpen bool, kind string, reader bool) {
	kinds := []string{"filter", "subquery", "exists", "join", "pjoin", "group", "async", "order", "cte", "phash", "reader", "in_sub", "spinasync", "derived",
		"range_reader", "range_from", "distinct_reader", "cte_async", "derived_async", "sub_async", "range_col", "pjoin_fail", "var_corunner", "join_using", "union", "distinct_wide", "distinct_wide_reader", "cte_join_using", "cte_self_pjoin", "like", "like", "cte_direct_slow", "sub2_async", "constants", "report", "pjoin_on_exists", "pjoin_on_exists", "async_reads_scope", "spin_reads_rows", "global_in_pjoin_on", "pjoin_on_union", "await_sub", "pjoin_on_func", "pjoin_many_fail"}
	if len(onlyKind) > 0 {
		// (bundles made of one kind only: a known finding is attached to that kind, see known_findings.json)
		kinds = onlyKind
	}
	kind = rapid.SampledFrom(kinds).Draw(t, "qkind")
	k := rapid.IntRange(0, 4).Draw(t, "k") * 10
	T, U, id, a, s, n, v, b := "t"+tag, "u"+tag, "id"+tag, "a"+tag, "s"+tag, "n"+tag, "v"+tag, "b"+tag
	switch kind {
	case "filter":
		return fmt.Sprintf("SELECT %s, %s FROM %s WHERE %s >= %d", id, a, T, a, k), false, kind, false
	case "subquery":
		return fmt.Sprintf("SELECT %s, (SELECT %s FROM %s WHERE %s >= %d) AS sub FROM %s", id, v, n, v, k/10, T), false, kind, false
	case "exists":
		return fmt.Sprintf("SELECT %s FROM %s WHERE EXISTS (SELECT %s FROM %s WHERE %s >= %d)", id, T, v, n, v, k/10), false, kind, false
	case "in_sub":
		return fmt.Sprintf("SELECT %s FROM %s WHERE %s IN (SELECT %s FROM %s)", id, T, id, v, n), false, kind, false
	case "join":
		jt := rapid.SampledFrom([]string{"JOIN", "LEFT JOIN", "HASH_JOIN", "STRAIGHT_JOIN"}).Draw(t, "jt")
		return fmt.Sprintf("SELECT * FROM %s x %s %s y ON x.%s = y.%s", T, jt, U, id, id), true, kind, false
	case "pjoin":
		jt := rapid.SampledFrom([]string{"PARALLEL JOIN", "PARALLEL LEFT JOIN", "PARALLEL STRAIGHT_JOIN"}).Draw(t, "pjt")
		op := rapid.SampledFrom([]string{"=", "<", ">="}).Draw(t, "jop")
		if jt != "PARALLEL JOIN" {
			op = "="
		}
		return fmt.Sprintf("SELECT * FROM %s x %s %s y ON x.%s %s y.%s", T, jt, U, id, op, id), true, kind, false
	case "phash":
		jt := rapid.SampledFrom([]string{"PARALLEL HASH_JOIN", "PARALLEL LEFT HASH_JOIN"}).Draw(t, "phjt")
		return fmt.Sprintf("SELECT * FROM %s x %s %s y ON x.%s = y.%s", T, jt, U, id, id), true, kind, false
	case "group":
		return fmt.Sprintf("SELECT %s, COUNT(*) AS c FROM %s GROUP BY %s", s, T, s), true, kind, false
	case "async":
		return fmt.Sprintf("SELECT %s, ASYNC.fx(%d, %s) AS x FROM %s", id, site, a, T), false, kind, false
	case "spinasync":
		return fmt.Sprintf("SELECT %s, SPINASYNC.fx(%d, %s) FROM %s", id, site, a, T), false, kind, false
	case "order":
		return fmt.Sprintf("SELECT %s, %s FROM %s ORDER BY %s DESC LIMIT 2", id, a, T, a), true, kind, false // ties leave order open
	case "cte":
		return fmt.Sprintf("WITH c%s AS (SELECT %s FROM %s WHERE %s >= %d) SELECT * FROM c%s", tag, id, T, a, k, tag), false, kind, false
	case "derived":
		return fmt.Sprintf("SELECT * FROM (SELECT %s, %s FROM %s WHERE %s >= %d) d", id, a, T, a, k), false, kind, false
	case "cte_self_pjoin":
		// both sides of a PARALLEL join read the same lazily evaluated CTE
		jt := rapid.SampledFrom([]string{"PARALLEL JOIN", "PARALLEL LEFT JOIN", "PARALLEL HASH_JOIN", "JOIN"}).Draw(t, "sjt")
		op := "="
		if !strings.Contains(jt, "HASH") {
			op = rapid.SampledFrom([]string{"=", "<", ">="}).Draw(t, "sjop")
		}
		return fmt.Sprintf("WITH c%s AS (SELECT %s, %s FROM %s WHERE %s >= %d) SELECT * FROM c%s x %s c%s y ON x.%s %s y.%s", tag, id, a, T, a, k, tag, jt, tag, id, op, id), true, kind, false
	case "like":
		// every query brings its own pattern
		pat := rapid.SampledFrom([]string{"x%", "%y", "y", "%", "x", "_", "%x%"}).Draw(t, "likepat")
		neg := rapid.SampledFrom([]string{"", "NOT "}).Draw(t, "likeneg")
		return fmt.Sprintf("SELECT %s, %s FROM %s WHERE %s %sLIKE '%s'", id, s, T, s, neg, pat), false, kind, false
	case "async_reads_scope":
		// a slow ASYNC call holds the row of a nested `FROM dual` - the scope of the statement - while a later item reads a CTE for the first time
		return fmt.Sprintf("WITH c%s AS (SELECT %s FROM %s) SELECT ASYNC.fx(%d, (SELECT * FROM dual)) AS held, (SELECT %s FROM `<-c%s` WHERE %s >= 0) AS later FROM %s", tag, id, T, site, id, tag, id, T), false, kind, false
	case "spin_reads_rows":
		// a detached SPIN call is handed the rows of a nested select, which the query goes on to finish
		return fmt.Sprintf("SELECT %s, SPIN.fx(%d, (SELECT * FROM %s)), (SELECT %s, ASYNC.fx(%d, %s) AS y FROM %s) AS sub FROM %s", id, site, n, v, site, v, n, T), false, kind, false
	case "global_in_pjoin_on":
		jt := rapid.SampledFrom([]string{"PARALLEL JOIN", "PARALLEL LEFT JOIN"}).Draw(t, "gjt")
		return fmt.Sprintf("SELECT * FROM %s x %s %s y ON x.%s <= y.%s AND GLOBAL.fid((SELECT %d AS i FROM dual), (SELECT TRUE AS b FROM dual))", T, jt, U, id, id, site), true, kind, false
	case "pjoin_on_union":
		// every ON evaluation builds the nested select from the one parsed statement
		jt := rapid.SampledFrom([]string{"PARALLEL JOIN", "PARALLEL LEFT JOIN"}).Draw(t, "ujt2")
		sub := rapid.SampledFrom([]string{"EXISTS (SELECT * FROM `<-.%T%` a JOIN `<-.%U%` b USING (%ID%))", "EXISTS (SELECT %ID% FROM `<-.%T%` UNION ALL SELECT %ID% FROM `<-.%U%`)"}).Draw(t, "usub")
		sub = strings.NewReplacer("%T%", T, "%U%", U, "%ID%", id).Replace(sub)
		return fmt.Sprintf("SELECT * FROM %s x %s %s y ON x.%s <= y.%s AND %s", T, jt, U, id, id, sub), true, kind, false
	case "pjoin_on_exists":
		// the workers of a PARALLEL join evaluate ON - and the nested selects in it - concurrently on one query
		jt := rapid.SampledFrom([]string{"PARALLEL JOIN", "PARALLEL LEFT JOIN", "PARALLEL STRAIGHT_JOIN"}).Draw(t, "pejt")
		sub := rapid.SampledFrom([]string{"EXISTS (SELECT * FROM `<-.%T%`)", "EXISTS (SELECT %ID% FROM `<-.%U%` WHERE %ID% >= 0)", "(SELECT %ID% FROM `<-.%U%`) IS NOT NULL",
			"EXISTS (SELECT AWAIT(%ID%) AS r FROM `<-.%T%`)", "x.%ID% IN (SELECT %ID% FROM `<-.%T%`)"}).Draw(t, "pesub")
		sub = strings.NewReplacer("%T%", T, "%U%", U, "%ID%", id).Replace(sub)
		return fmt.Sprintf("SELECT * FROM %s x %s %s y ON x.%s <= y.%s AND %s", T, jt, U, id, id, sub), true, kind, false
	case "pjoin_on_cte":
		// a CTE nobody has read yet is first read by the ON clause of a PARALLEL join: by all its workers at once
		jt := rapid.SampledFrom([]string{"PARALLEL JOIN", "PARALLEL LEFT JOIN"}).Draw(t, "pcjt")
		return fmt.Sprintf("WITH k%s AS (SELECT %s, ASYNC.fx(%d, %s) AS y FROM %s) SELECT * FROM %s x %s %s y ON x.%s <= y.%s AND EXISTS (SELECT %s FROM `<-.k%s`)", tag, id, site, a, T, T, jt, U, id, id, id, tag), true, kind, false
	case "constants":
		// every caller passes the same constants map (shared configuration): it is only ever read
		return fmt.Sprintf("SELECT %s, CONSTANT('unit') AS unit, CONSTANT('conf') AS conf, (SELECT CONSTANT('unit') AS u2 FROM dual) AS sub FROM %s WHERE %s >= CONSTANT('lim')", id, T, a), false, kind, false
	case "report":
		// REPORT hands an error to the caller's own handler, synchronously, and adds no column
		return fmt.Sprintf("SELECT %s, REPORT_WHEN(%s >= %d, CONCAT('big-', %s)), (SELECT REPORT(CONCAT('n-', %s)) FROM %s) AS sub FROM %s", id, a, k, id, v, n, T), false, kind, false
	case "cte_direct_slow":
		// a selector that walks through a CTE whose body is slow: evaluated while other clients parse new selectors
		return fmt.Sprintf("WITH c%s AS (SELECT %s, %s, ASYNC.fx(%d, %s) AS y FROM %s) SELECT %s FROM `c%s.%s`", tag, id, n, site, a, T, v, tag, n), false, kind, false
	case "sub2_async":
		// the ASYNC call sits two query levels below the executed statement
		return fmt.Sprintf("SELECT %s, (SELECT %s, (SELECT ASYNC.fx(%d, 5) AS deep FROM dual) AS inner2 FROM %s) AS sub FROM %s", id, v, site, n, T), false, kind, false
	case "join_using":
		// the builder rewrites USING into an ON expression: two queries with the same text must not share that tree
		jt := rapid.SampledFrom([]string{"JOIN", "LEFT JOIN", "PARALLEL JOIN", "HASH_JOIN"}).Draw(t, "ujt")
		return fmt.Sprintf("SELECT * FROM %s x %s %s y USING (%s)", T, jt, U, id), true, kind, false
	case "cte_join_using":
		return fmt.Sprintf("WITH c%s AS (SELECT %s, ASYNC.fx(%d, %s) AS y FROM %s) SELECT * FROM c%s x JOIN %s y USING (%s)", tag, id, site, a, T, tag, U, id), true, kind, false
	case "union":
		return fmt.Sprintf("WITH c%s AS (SELECT %s FROM %s) SELECT %s FROM c%s UNION ALL SELECT %s FROM %s", tag, id, T, id, tag, id, U), true, kind, false
	case "distinct_wide":
		// whole rows print to far more than a hash block
		return fmt.Sprintf("SELECT DISTINCT * FROM %s", T), false, kind, false
	case "distinct_wide_reader":
		return "distinct=>" + T, false, kind, true
	case "pjoin_fail":
		// ON fails (not boolean) for every left key: several workers fail at once
		jt := rapid.SampledFrom([]string{"PARALLEL JOIN", "PARALLEL LEFT JOIN", "PARALLEL STRAIGHT_JOIN", "PARALLEL RIGHT JOIN"}).Draw(t, "pfjt")
		return fmt.Sprintf("SELECT * FROM %s x %s %s y ON x.%s %s y.%s AND x.%s", T, jt, U, id, rapid.SampledFrom([]string{"=", "<", ">="}).Draw(t, "pfop"), id, s), true, kind, false
	case "pjoin_many_fail":
		// every worker of a PARALLEL join over the wide table fails (the generator plants a fault for the literal argument;
		// a function in ON is accepted as a boolean conjunct and sees literals only): whatever the failing workers hold - a slot of a pool, a semaphore, a place in a batch -
		// has to be given back, or this client's failures stall everybody's joins
		// (the wide table stands on the side whose keys the workers are started for: the preserved side of an outer join,
		// the left side of a STRAIGHT_JOIN, the right side of an inner join)
		switch rapid.SampledFrom([]string{"PARALLEL LEFT JOIN", "PARALLEL STRAIGHT_JOIN", "PARALLEL JOIN", "PARALLEL RIGHT JOIN"}).Draw(t, "pmfjt") {
		case "PARALLEL LEFT JOIN":
			return fmt.Sprintf("SELECT * FROM w%s x PARALLEL LEFT JOIN %s y ON x.%s >= y.%s AND fid(%d, TRUE)", tag, U, id, id, site), true, kind, false
		case "PARALLEL STRAIGHT_JOIN":
			return fmt.Sprintf("SELECT * FROM w%s x PARALLEL STRAIGHT_JOIN %s y ON x.%s >= y.%s AND fid(%d, TRUE)", tag, U, id, id, site), true, kind, false
		case "PARALLEL RIGHT JOIN":
			return fmt.Sprintf("SELECT * FROM %s x PARALLEL RIGHT JOIN w%s y ON x.%s <= y.%s AND fid(%d, TRUE)", U, tag, id, id, site), true, kind, false
		}
		return fmt.Sprintf("SELECT * FROM %s x PARALLEL JOIN w%s y ON x.%s <= y.%s AND fid(%d, TRUE)", U, tag, id, id, site), true, kind, false
	case "pjoin_on_func":
		// a user function in the ON of a PARALLEL join: with faults placed by argument value several workers fail, each in
		// its own way (a returned error, a panic with an error, a panic with a string)
		jt := rapid.SampledFrom([]string{"PARALLEL JOIN", "PARALLEL LEFT JOIN", "PARALLEL STRAIGHT_JOIN"}).Draw(t, "pofjt")
		// (a function in ON is accepted as a boolean conjunct only, and sees literals only: as an operand of a comparison it is
		// refused when the query is built - the shape drawn here until wave 9 was such a query and exercised nothing)
		return fmt.Sprintf("SELECT * FROM %s x %s %s y ON x.%s <= y.%s AND fid(%d, TRUE)", T, jt, U, id, id, site), true, kind, false
	case "var_corunner":
		// user code on an ASYNC goroutine writes the query's variable context through the exported
		// SETVAR function while nested selects of the same statement read it
		return fmt.Sprintf("SELECT %s, ASYNC.setv(%d, 'k', %s) AS w, (SELECT %s FROM %s WHERE GETVAR('k') IS NULL OR %s >= 0) AS sub FROM %s", id, site, id, v, n, v, T), false, kind, false
	case "range_reader":
		// open-ended slices: the cached parse of the selector text must not remember one document's array length
		sel := rapid.SampledFrom([]string{T + "[(1:end)]." + id, T + "[(begin:2)]." + a, T + "[(0:end)]." + n + "." + v, T + "[(begin:end)]." + s}).Draw(t, "rsel")
		return sel, false, kind, true
	case "range_from":
		return fmt.Sprintf("SELECT %s, %s FROM `%s[(%s)]`", id, a, T, rapid.SampledFrom([]string{"1:end", "begin:2", "0:end", "begin:end"}).Draw(t, "rng")), false, kind, false
	case "range_col":
		return fmt.Sprintf("SELECT %s, `%s[(%s)]` AS part FROM %s", id, n, rapid.SampledFrom([]string{"1:end", "begin:1", "0:end"}).Draw(t, "rng"), T), false, kind, false
	case "distinct_reader":
		return "distinct=>" + U + "." + b, false, kind, true
	case "cte_async":
		return fmt.Sprintf("WITH c%s AS (SELECT %s, ASYNC.fx(%d, %s) AS y FROM %s) SELECT * FROM c%s", tag, id, site, a, T, tag), false, kind, false
	case "derived_async":
		return fmt.Sprintf("SELECT * FROM (SELECT %s, ASYNC.fx(%d, %s) AS y FROM %s) d", id, site, a, T), false, kind, false
	case "sub_async":
		return fmt.Sprintf("SELECT %s, (SELECT %s, ASYNC.fx(%d, %s) AS y FROM %s) AS sub FROM %s", id, v, site, v, n, T), false, kind, false
	case "await_sub":
		// the awaited expression defers work of its own (a nested select, EXISTS, another AWAIT) while the query settles
		return fmt.Sprintf("SELECT %s, AWAIT(%s) AS w FROM %s", id, rapid.SampledFrom([]string{
			fmt.Sprintf("(SELECT %s FROM %s)", v, n), fmt.Sprintf("EXISTS (SELECT %s FROM %s)", v, n), fmt.Sprintf("AWAIT(ASYNC.fx(%d, %s))", site, a), fmt.Sprintf("(SELECT ASYNC.fx(%d, %s) AS y FROM dual)", site, a)}).Draw(t, "await_sub_form"), T), false, kind, false
	case "reader":
		sel := rapid.SampledFrom([]string{T + "." + id, T + "[0]." + a, T + "." + n + "." + v, U + "." + b}).Draw(t, "sel")
		return sel, false, kind, true
	}
	return "SELECT 1 AS one FROM " + T, false, "const", false
}

func genC13(t *rapid.T) *Bundle {
	config := rapid.SampledFrom([]string{"separate_cold", "separate_warm", "shared", "same_text"}).Draw(t, "config")
	var onlyKind []string
	if rapid.IntRange(0, 24).Draw(t, "cte_in_parallel_on") == 0 {
		onlyKind = []string{"pjoin_on_cte"}
	}
	nclients := rapid.IntRange(2, 4).Draw(t, "nclients")
	var docs []json.RawMessage
	var clients []casefmt.Client
	exp := c13Expect{Config: config}
	site := 0
	kindsUsed := map[string]bool{}
	var manyFail []int
	var varsets []map[string]any
	tagFor := func(ci int) string {
		if config == "separate_cold" {
			return fmt.Sprintf("_%d", ci)
		}
		return ""
	}
	if config == "shared" {
		docs = append(docs, rawDoc(c13Doc(t, "")))
	}
	for ci := 0; ci < nclients; ci++ {
		tag := tagFor(ci)
		if config != "shared" {
			docs = append(docs, rawDoc(c13Doc(t, tag)))
		}
		nops := rapid.IntRange(1, 3).Draw(t, "nops")
		cl := casefmt.Client{Name: fmt.Sprintf("client%d", ci)}
		var open []bool
		for oi := 0; oi < nops; oi++ {
			site++
			q, oo, qkind, reader := c13Query(t, tag, site, config == "shared", onlyKind...)
			di := ci
			if config == "shared" {
				di = 0
			}
			vi := -1
			if qkind == "var_corunner" && rapid.IntRange(0, 2).Draw(t, "with_vars") != 0 {
				// one time in three the query is built without WithVars: the variable context starts out nil
				varsets = append(varsets, map[string]any{})
				vi = len(varsets) - 1
			}
			if qkind == "pjoin_many_fail" {
				manyFail = append(manyFail, site)
			}
			cl.Ops = append(cl.Ops, casefmt.Op{Doc: di, Vars: vi, Query: q, Reader: reader, ConstShared: qkind == "constants"})
			kindsUsed[qkind] = true
			open = append(open, oo)
		}
		clients = append(clients, cl)
		exp.OrderOpen = append(exp.OrderOpen, open)
	}
	if config == "same_text" {
		// every client issues client 0's query texts, concurrently, on its own document
		for ci := 1; ci < nclients; ci++ {
			ops := make([]casefmt.Op, len(clients[0].Ops))
			copy(ops, clients[0].Ops)
			for i := range ops {
				ops[i].Doc = ci
				if ops[i].Vars >= 0 {
					varsets = append(varsets, map[string]any{})
					ops[i].Vars = len(varsets) - 1
				}
			}
			clients[ci].Ops = ops
			exp.OrderOpen[ci] = append([]bool{}, exp.OrderOpen[0]...)
		}
	}
	if config == "separate_warm" {
		// a prologue client-op warms the selector cache: client 0 runs every
		// other client's first query on its own (identically shaped) document first
		var warm []casefmt.Op
		for ci := 1; ci < nclients; ci++ {
			op := clients[ci].Ops[0]
			op.Doc = 0
			if op.Vars >= 0 {
				// a variable map belongs to one caller: the warm-up copy gets its own
				varsets = append(varsets, map[string]any{})
				op.Vars = len(varsets) - 1
			}
			warm = append(warm, op)
		}
		clients[0].Ops = append(warm, clients[0].Ops...)
		pre := make([]bool, len(warm))
		for i := range pre {
			pre[i] = exp.OrderOpen[i+1][0]
		}
		exp.OrderOpen[0] = append(pre, exp.OrderOpen[0]...)
	}
	sim := drawSim(t, "")
	c := casefmt.Case{Prop: "C13", Sim: sim, Docs: docs, Clients: clients, Vars: varsets,
		SharedConstants: map[string]any{"unit": "ms", "lim": 10.0, "conf": map[string]any{"levels": []any{1.0, 2.0}, "on": true}}}
	var sites []int
	for i := 1; i <= site; i++ {
		sites = append(sites, i)
	}
	c.Stubs.Lat = drawLatencies(t, sites, 4)
	for _, ms := range manyFail {
		c.Stubs.Faults = append(c.Stubs.Faults, casefmt.Fault{ID: ms, Arg: "b:true", Kind: rapid.SampledFrom([]string{"panic", "panic_str", "error", "panic"}).Draw(t, "many_fail_kind")})
	}
	// user code failing on some rows: placed by argument value, so the same
	// rows fail in the concurrent run and in each solo run
	if rapid.IntRange(0, 2).Draw(t, "with_faults") == 0 {
		nf := rapid.IntRange(1, 3).Draw(t, "nfaults")
		for i := 0; i < nf; i++ {
			c.Stubs.Faults = append(c.Stubs.Faults, casefmt.Fault{ID: rapid.SampledFrom(sites).Draw(t, "fault_site"),
				Arg:  rapid.SampledFrom([]string{"n:0", "n:10", "n:20", "n:1", "n:2", "b:true"}).Draw(t, "fault_arg"),
				Kind: rapid.SampledFrom([]string{"error", "panic", "panic_str"}).Draw(t, "fault_kind")})
		}
	}
	tags := []string{"config:" + config}
	for _, k := range []string{"pjoin_on_exists", "pjoin_on_cte"} {
		if kindsUsed[k] {
			tags = append(tags, "qkind:"+k)
		}
	}
	return &Bundle{Prop: "C13", Kind: config, Case: c, Expect: mustJSON(exp), Tags: tags}
}

// soloCase derives the case in which only client ci runs (same documents,
// same map-order policy, no concurrency).
func soloCase(c *casefmt.Case, ci int) *casefmt.Case {
	s := *c
	s.Clients = []casefmt.Client{c.Clients[ci]}
	s.Sim.Strategy = "np"
	s.Sim.ChangePoints = nil
	return &s
}

func opOutcome(op *casefmt.OpObs) string {
	switch {
	case op.Panic != "":
		return "panic"
	case op.NewErr != "":
		return "new_err"
	case op.ExecErr != "":
		return "exec_err"
	}
	return "ok"
}

func evalC13(b *Bundle, r *Runner) []*Violation {
	var exp c13Expect
	if err := json.Unmarshal(b.Expect, &exp); err != nil {
		infra("C13: bad expectation: %v", err)
	}
	o := r.Run(&b.Case, true)
	var vs []*Violation
	vs = append(vs, processHealth(b, o)...)
	for i, sig := range o.Races {
		v := mkViolation(b, "DATA_RACE", raceFuncSig(sig), sig+"\n"+o.RaceTexts[i], o)
		vs = append(vs, v)
	}
	if len(vs) > 0 {
		return vs
	}
	if o.Sim.MaxLive >= 2 && o.Sim.Contended > 0 {
		r.Stats.probe("clients_interleaved")
	}
	if o.Sim.MutexContended > 0 {
		r.Stats.probe("mutex_contended")
	}
	// solo equivalence: every client returns what it returns when run alone
	idx := 0
	for ci := range b.Case.Clients {
		solo := r.Run(soloCase(&b.Case, ci), false)
		if hv := processHealth(b, solo); len(hv) > 0 {
			// the solo run itself is unhealthy: not a concurrency finding; other
			// properties (C10) own it. Skip comparison for this client.
			idx += len(b.Case.Clients[ci].Ops)
			r.Stats.probe("solo_run_unhealthy")
			continue
		}
		for oi := range b.Case.Clients[ci].Ops {
			conc := &o.Ops[idx]
			idx++
			if oi >= len(solo.Ops) {
				continue
			}
			alone := &solo.Ops[oi]
			if opOutcome(conc) != opOutcome(alone) {
				vs = append(vs, mkViolation(b, "SOLO_MISMATCH", "outcome", fmt.Sprintf("client %d op %d (%s): concurrently %s (%s%s), alone %s (%s%s)",
					ci, oi, b.Case.Clients[ci].Ops[oi].Query, opOutcome(conc), conc.NewErr, conc.ExecErr, opOutcome(alone), alone.NewErr, alone.ExecErr), o))
				continue
			}
			if opOutcome(conc) != "ok" {
				continue
			}
			cr, ar := normJSON(conc.Rows), normJSON(alone.Rows)
			same := jsonEqual(cr, ar)
			if !same && exp.OrderOpen[ci][oi] {
				ca, ok1 := asArray(cr)
				aa, ok2 := asArray(ar)
				same = ok1 && ok2 && multisetEqual(ca, aa)
			}
			if same && strings.Join(conc.Reported, "|") != strings.Join(alone.Reported, "|") && !strings.Contains(b.Case.Clients[ci].Ops[oi].Query, "ASYNC.") {
				vs = append(vs, mkViolation(b, "SOLO_MISMATCH", "reported", fmt.Sprintf("client %d op %d (%s): errors handed to its handler concurrently %v, alone %v",
					ci, oi, b.Case.Clients[ci].Ops[oi].Query, conc.Reported, alone.Reported), o))
			}
			if !same {
				vs = append(vs, mkViolation(b, "SOLO_MISMATCH", "rows", fmt.Sprintf("client %d op %d (%s):\n concurrently %s\n alone        %s",
					ci, oi, b.Case.Clients[ci].Ops[oi].Query, compact(conc.Rows), compact(alone.Rows)), o))
			}
		}
	}
	return vs
}

func corpusC13() []*Bundle {
	doc := map[string]any{
		"t": []any{map[string]any{"id": 1.0, "a": 10.0, "s": "x", "n": []any{map[string]any{"v": 1.0}}}, map[string]any{"id": 2.0, "a": 20.0, "s": "y", "n": []any{}}},
		"u": []any{map[string]any{"id": 1.0, "b": "p"}, map[string]any{"id": 2.0, "b": "q"}},
	}
	mk := func(name string, shared bool, strat string, qs ...string) *Bundle {
		var docs []json.RawMessage
		var clients []casefmt.Client
		var open [][]bool
		for i, q := range qs {
			if !shared || i == 0 {
				docs = append(docs, rawDoc(doc))
			}
			di := i
			if shared {
				di = 0
			}
			clients = append(clients, casefmt.Client{Name: fmt.Sprintf("client%d", i), Ops: []casefmt.Op{{Doc: di, Vars: -1, Query: q}}})
			open = append(open, []bool{strings.Contains(q, "JOIN") || strings.Contains(q, "GROUP")})
		}
		c := casefmt.Case{Prop: "C13", Sim: casefmt.SimConfig{Strategy: strat, Seed: 3, WalkP: 0.1, MapPolicy: "sorted"}, Docs: docs, Clients: clients}
		cfg := "separate_cold"
		if shared {
			cfg = "shared"
		}
		return &Bundle{Prop: "C13", Kind: "corpus:" + name, Case: c, Expect: mustJSON(c13Expect{OrderOpen: open, Config: cfg}), Tags: []string{"corpus", "config:" + cfg}}
	}
	var out []*Bundle
	for _, strat := range []string{"walk", "np"} {
		out = append(out,
			mk("two-new-selectors", false, strat, "SELECT id AS k1 FROM t", "SELECT a AS k2 FROM t"),
			mk("shared-filter", true, strat, "SELECT id FROM t WHERE a >= 10", "SELECT id FROM t WHERE a >= 20"),
			mk("shared-exists", true, strat, "SELECT id FROM t WHERE EXISTS (SELECT v FROM n WHERE v >= 1)", "SELECT id FROM t WHERE EXISTS (SELECT v FROM n WHERE v >= 0)"),
			mk("async-pair", false, strat, "SELECT id, ASYNC.fx(1, a) AS x FROM t", "SELECT id, ASYNC.fx(2, a) AS x FROM t"),
			mk("parallel-joins", true, strat, "SELECT * FROM t x PARALLEL JOIN u y ON x.id = y.id", "SELECT * FROM t x PARALLEL HASH_JOIN u y ON x.id = y.id"),
			mk("shared-cte", true, strat, "WITH c AS (SELECT id FROM t) SELECT * FROM c", "SELECT id FROM t"),
		)
		// the workers of one PARALLEL join fail at the same time, each in its own way (a returned error, a panic with a
		// string, a panic with an error): whatever collects the failures gets values of different Go types
		for _, jt := range []string{"PARALLEL JOIN", "PARALLEL LEFT JOIN", "PARALLEL STRAIGHT_JOIN"} {
			b := mk("pjoin-workers-fail-differently", false, strat, fmt.Sprintf("SELECT * FROM t x %s u y ON x.id <= y.id AND fid(1, TRUE)", jt))
			b.Case.Stubs.Faults = []casefmt.Fault{{ID: 1, K: 1, Kind: "error"}, {ID: 1, K: 2, Kind: "panic_str"}, {ID: 1, K: 3, Kind: "panic"}}
			b.Case.Stubs.Lat = []casefmt.LatRule{{ID: 1, Call: -1, Ns: 1000000}}
			out = append(out, b)
		}
	}
	return out
}

func init() {
	register(&Property{
		ID: "C13", Race: true, Plain: true, Level: "exploration",
		Rule:   "cases = rapid-generated sets of 2-4 simulated client tasks x 1-3 queries (filters, row-scoped subqueries, EXISTS, IN-subquery, joins incl. PARALLEL variants, GROUP BY, ASYNC/SPINASYNC stubs, ORDER BY, CTE, derived tables, direct path selectors incl. open-ended slices and top-level functions, USING joins, UNION, CTE self-joins, LIKE filters with per-query patterns, DISTINCT over wide rows, PARALLEL joins failing for every key, ASYNC inside CTE/derived table/subquery, user code writing the variable context from ASYNC goroutines; stub faults placed by argument value) on separate documents with fresh selector texts / warmed selector cache / one shared document / the same query texts issued by every client; executed under np/walk/pct/sync schedules in a -race child (ThreadSanitizer as happens-before oracle on the controlled schedule), then each client re-run alone for solo equivalence; non-trivial = >=2 tasks runnable at some yield, or fault fired, or non-identity map order; distinct = distinct case-file hash; queries reading CONSTANT(..) all receive one shared constants map, queries calling REPORT/REPORT_WHEN must hand exactly their own errors to their own handler (compared with the solo run); nested selects, EXISTS and AWAIT in the ON clause of PARALLEL joins; user code writing a variable context that was never initialised; AWAIT over expressions that defer work while the query settles, a user function in a PARALLEL ON with faults (returned error, panic(error), panic(string)) placed by argument value",
		Corpus: corpusC13, Gen: genC13, Eval: evalC13, QuickChecks: 250,
		Assumptions: []string{
			"ThreadSanitizer sees exactly the program's own synchronisation: scheduler hand-offs run under runtime.RaceDisable and simulator bookkeeping is //go:norace over slices",
			"preemption granularity is the statement; intra-statement interleavings are covered by happens-before race detection only",
			"registries are written only at process start, as in production",
		},
		Components: map[string][]string{
			"real": {"genql (instrumented copy of /repo working tree)", "sqlparser", "compare", "Go runtime", "ThreadSanitizer"},
			"stub": {"user function fx", "goroutine scheduler (zzsim)", "clock (zzsim)", "blocking of sync primitives (modelled; real primitive executed once it cannot block)"},
		},
	})
}
