package main

// Hand-written cases for the reference models the checks trust (DESIGN §6):
// expected values below were worked out by hand, not by running the library.

import (
	"encoding/json"
	"reflect"
	"testing"
)

func rowsOf(t *testing.T, s string) []any {
	t.Helper()
	var v []any
	if err := json.Unmarshal([]byte(s), &v); err != nil {
		t.Fatal(err)
	}
	return v
}

func TestTextbookJoin(t *testing.T) {
	left := rowsOf(t, `[{"id":1,"k":"a"},{"id":2,"k":"b"},{"id":2,"k":"c"},{"id":5,"k":"d"}]`)
	right := rowsOf(t, `[{"id":2,"v":10},{"id":2,"v":11},{"id":3,"v":12},{"id":1,"v":13}]`)
	eq := &c04Node{Leaf: &c04Cmp{L: "id", R: "id", Op: "="}}
	cases := []struct {
		typ  string
		on   *c04Node
		want string
	}{
		{"inner", eq, `[
			{"x":{"id":1,"k":"a"},"y":{"id":1,"v":13}},
			{"x":{"id":2,"k":"b"},"y":{"id":2,"v":10}},{"x":{"id":2,"k":"b"},"y":{"id":2,"v":11}},
			{"x":{"id":2,"k":"c"},"y":{"id":2,"v":10}},{"x":{"id":2,"k":"c"},"y":{"id":2,"v":11}}]`},
		{"left", eq, `[
			{"x":{"id":1,"k":"a"},"y":{"id":1,"v":13}},
			{"x":{"id":2,"k":"b"},"y":{"id":2,"v":10}},{"x":{"id":2,"k":"b"},"y":{"id":2,"v":11}},
			{"x":{"id":2,"k":"c"},"y":{"id":2,"v":10}},{"x":{"id":2,"k":"c"},"y":{"id":2,"v":11}},
			{"x":{"id":5,"k":"d"},"y":null}]`},
		{"right", eq, `[
			{"x":{"id":1,"k":"a"},"y":{"id":1,"v":13}},
			{"x":{"id":2,"k":"b"},"y":{"id":2,"v":10}},{"x":{"id":2,"k":"b"},"y":{"id":2,"v":11}},
			{"x":{"id":2,"k":"c"},"y":{"id":2,"v":10}},{"x":{"id":2,"k":"c"},"y":{"id":2,"v":11}},
			{"x":null,"y":{"id":3,"v":12}}]`},
		// x.id < y.id AND x.id != ... : only (1,2),(1,2),(1,3),(2,3),(2,3)
		{"inner", &c04Node{Leaf: &c04Cmp{L: "id", R: "id", Op: "<"}}, `[
			{"x":{"id":1,"k":"a"},"y":{"id":2,"v":10}},{"x":{"id":1,"k":"a"},"y":{"id":2,"v":11}},{"x":{"id":1,"k":"a"},"y":{"id":3,"v":12}},
			{"x":{"id":2,"k":"b"},"y":{"id":3,"v":12}},{"x":{"id":2,"k":"c"},"y":{"id":3,"v":12}}]`},
		// OR of an equality and a > : id equal, or x.id > y.id
		{"left", &c04Node{Conn: "AND", Left: eq, Right: &c04Node{Leaf: &c04Cmp{L: "id", R: "v", Op: ">=", Flip: true}}}, `[
			{"x":{"id":1,"k":"a"},"y":null},{"x":{"id":2,"k":"b"},"y":null},{"x":{"id":2,"k":"c"},"y":null},{"x":{"id":5,"k":"d"},"y":null}]`},
	}
	for i, c := range cases {
		got := canonSorted(textbookJoin(c.typ, c.on, left, right))
		want := canonSorted(rowsOf(t, c.want))
		if got != want {
			t.Errorf("case %d (%s %s):\n got %s\nwant %s", i, c.typ, c.on.sql(), got, want)
		}
	}
	// empty sides
	if n := len(textbookJoin("left", eq, left, nil)); n != 4 {
		t.Errorf("left join with an empty right side: %d rows, want 4", n)
	}
	if n := len(textbookJoin("right", eq, nil, right)); n != 4 {
		t.Errorf("right join with an empty left side: %d rows, want 4", n)
	}
	if n := len(textbookJoin("inner", eq, nil, right)); n != 0 {
		t.Errorf("inner join with an empty side: %d rows, want 0", n)
	}
	// the written form of a flipped leaf keeps its meaning
	f := &c04Node{Leaf: &c04Cmp{L: "a", R: "b", Op: "<", Flip: true}}
	if f.sql() != "y.b > x.a" {
		t.Errorf("flipped leaf printed as %q", f.sql())
	}
	if !f.eval(map[string]any{"a": 1.0}, map[string]any{"b": 2.0}) || f.eval(map[string]any{"a": 2.0}, map[string]any{"b": 2.0}) {
		t.Errorf("flipped leaf evaluated wrongly")
	}
	if !eq.equi() || (&c04Node{Conn: "OR", Left: eq, Right: eq}).equi() || !(&c04Node{Conn: "AND", Left: eq, Right: eq}).equi() {
		t.Errorf("equi() classification wrong")
	}
}

func TestReferenceGroupBy(t *testing.T) {
	table := rowsOf(t, `[
		{"g":"a","h":1,"x":null,"y":2,"z":1,"o":{"p":1}},
		{"g":"b","h":1,"x":3,"y":4,"z":1,"o":{"p":2}},
		{"g":"a","h":2,"x":5,"y":6,"z":1,"o":{"p":3}},
		{"g":"a","h":1,"x":7,"y":8,"z":1,"o":{"p":4}},
		{"g":"c","h":1,"x":null,"y":10,"z":1,"o":{"p":5}}]`)
	// GROUP BY g: a={r0,r2,r3}, b={r1}, c={r4}, in that order
	e := &c03Expect{GroupBy: []string{"g"}, SelCols: []string{"g"}, Aggs: []c03Agg{
		{Fn: "count", Alias: "n"}, {Fn: "sum", Col: "x", Alias: "s"}, {Fn: "min", Col: "y", Alias: "mn"},
		{Fn: "max", Col: "y", Alias: "mx"}, {Fn: "avg", Col: "y", Alias: "av"}, {Fn: "sum", Col: "o.p", Alias: "sp"}}}
	rows, len1, ok := referenceGroupBy(e, table)
	want := rowsOf(t, `[
		{"g":"a","n":3,"s":12,"mn":2,"mx":8,"av":5.333333333333333,"sp":8},
		{"g":"b","n":1,"s":3,"mn":4,"mx":4,"av":4,"sp":2},
		{"g":"c","n":1,"s":null,"mn":10,"mx":10,"av":10,"sp":5}]`)
	if !ok || len(rows) != 3 {
		t.Fatalf("rows=%v ok=%v", rows, ok)
	}
	for i := range want {
		if !c03RowEqual(rows[i], want[i], nil) {
			t.Errorf("group %d: got %v want %v", i, rows[i], want[i])
		}
	}
	// SUM over the all-NULL group c is left open by the statement
	if !reflect.DeepEqual(len1[2], []string{"s"}) || len(len1[0]) != 0 {
		t.Errorf("open aliases: %v", len1)
	}
	// two grouping columns, WHERE y > 2, HAVING COUNT(*) >= 2 : (a,1)={r3} (r0 filtered), (b,1), (a,2), (c,1): none has 2
	e2 := &c03Expect{GroupBy: []string{"g", "h"}, SelCols: []string{"g", "h"}, Aggs: []c03Agg{{Fn: "count", Alias: "n"}},
		Where:  &c03Pred{Col: "y", Op: ">", K: 2},
		Having: &c03Pred{Agg: &c03Agg{Fn: "count"}, Op: ">=", K: 2}}
	rows, _, ok = referenceGroupBy(e2, table)
	if !ok || len(rows) != 0 {
		t.Errorf("expected no group, got %v", rows)
	}
	e2.Where = nil // now (a,1)={r0,r3} qualifies, first in order
	rows, _, ok = referenceGroupBy(e2, table)
	if !ok || len(rows) != 1 || !c03RowEqual(rows[0], map[string]any{"g": "a", "h": 1.0, "n": 2.0}, nil) {
		t.Errorf("HAVING: got %v", rows)
	}
	// `*`: member rows in source order plus all grouping columns
	e3 := &c03Expect{GroupBy: []string{"h"}, Star: true}
	rows, _, _ = referenceGroupBy(e3, table)
	if len(rows) != 2 {
		t.Fatalf("star rows: %v", rows)
	}
	m := rows[0].(map[string]any)["*"].([]any)
	if len(m) != 4 || m[0].(map[string]any)["y"] != 2.0 || m[3].(map[string]any)["y"] != 10.0 || rows[0].(map[string]any)["h"] != 1.0 {
		t.Errorf("star members wrong: %v", rows[0])
	}
	// whole-table form over WHERE that matches nothing: one row, COUNT 0, the rest NULL (and not open: no members)
	e4 := &c03Expect{Aggs: []c03Agg{{Fn: "count", Alias: "n"}, {Fn: "max", Col: "y", Alias: "mx"}}, Where: &c03Pred{Col: "y", Op: ">", K: 100}}
	rows, len4, ok := referenceGroupBy(e4, table)
	if !ok || len(rows) != 1 || !c03RowEqual(rows[0], map[string]any{"n": 0.0, "mx": nil}, nil) || len(len4[0]) != 0 {
		t.Errorf("empty whole-table: %v %v", rows, len4)
	}
	// HAVING over an open aggregate makes the case undecided
	e5 := &c03Expect{GroupBy: []string{"g"}, SelCols: []string{"g"}, Having: &c03Pred{Agg: &c03Agg{Fn: "sum", Col: "x"}, Op: ">", K: 0}}
	if _, _, ok := referenceGroupBy(e5, table); ok {
		t.Errorf("HAVING on an all-NULL SUM must be reported as undecided")
	}
	// keys of different kinds never share a group
	if keyEqual(1.0, "1") || keyEqual(nil, false) || keyEqual(0.0, false) || !keyEqual(nil, nil) || !keyEqual("a", "a") {
		t.Errorf("keyEqual wrong")
	}
}

func TestC03Comparators(t *testing.T) {
	a := map[string]any{"g": "a", "s": nil}
	if !c03RowEqual(map[string]any{"g": "a", "s": 0.0}, a, []string{"s"}) || !c03RowEqual(map[string]any{"g": "a", "s": nil}, a, []string{"s"}) {
		t.Errorf("open alias must accept NULL and 0")
	}
	if c03RowEqual(map[string]any{"g": "a", "s": 1.0}, a, []string{"s"}) {
		t.Errorf("open alias must not accept 1")
	}
	if c03RowEqual(map[string]any{"g": "a", "s": 0.0}, a, nil) {
		t.Errorf("closed alias must not accept 0 for NULL")
	}
	if c03RowEqual(map[string]any{"g": "a"}, a, []string{"s"}) || c03RowEqual(map[string]any{"g": "a", "s": nil, "t": 1.0}, a, nil) {
		t.Errorf("key sets must match exactly")
	}
	w := []any{map[string]any{"k": 1.0}, map[string]any{"k": 1.0}, map[string]any{"k": 2.0}}
	if !multisetEqualLenient([]any{map[string]any{"k": 2.0}, map[string]any{"k": 1.0}, map[string]any{"k": 1.0}}, w, nil) {
		t.Errorf("multiset equality must ignore order")
	}
	if multisetEqualLenient([]any{map[string]any{"k": 2.0}, map[string]any{"k": 2.0}, map[string]any{"k": 1.0}}, w, nil) {
		t.Errorf("multiset equality must count duplicates")
	}
}

func TestRegisterModel(t *testing.T) {
	table := rowsOf(t, `[{"id":1,"a":10,"b":"s"},{"id":2,"a":0,"b":null},{"id":3,"a":20,"b":"t"}]`)
	eq := func(name string, got []any, want string) {
		t.Helper()
		if canonText(got) != canonText(rowsOf(t, want)) {
			t.Errorf("%s:\n got %s\nwant %s", name, canonText(got), want)
		}
	}
	// SELECT GETVAR('k') AS g0, SETVAR('k', a), GETVAR('k') AS g2 FROM t : reads see the previous row's write, then their own row's
	model := map[string]any{}
	q := &c20Query{WhereK: -1, Items: []c20Item{{Kind: "get", Key: "k", Alias: "g0"}, {Kind: "set", Key: "k", VKind: "col", VCol: "a"}, {Kind: "get", Key: "k", Alias: "g2"}}}
	r1, r2 := c20Model(q, table, model)
	eq("read-write-read", r1, `[{"g0":null,"g2":10},{"g0":10,"g2":0},{"g0":0,"g2":20}]`)
	if r2 != nil || model["k"] != 20.0 {
		t.Errorf("after one Exec: rows2=%v k=%v", r2, model["k"])
	}
	// WHERE a >= 10 skips row 2 entirely; the same query executed twice continues from the register
	model = map[string]any{"k": "init"}
	q = &c20Query{WhereK: 10, Twice: true, Items: []c20Item{{Kind: "get", Key: "k", Alias: "g0"}, {Kind: "set", Key: "k", VKind: "sum"}}}
	r1, r2 = c20Model(q, table, model)
	eq("first exec", r1, `[{"g0":"init"},{"g0":11}]`)
	eq("second exec", r2, `[{"g0":23},{"g0":11}]`)
	if model["k"] != 23.0 {
		t.Errorf("k=%v", model["k"])
	}
	// awaited reads and writes happen after the last row, in (row, item) order:
	// SELECT id, AWAIT(GETVAR('k')) AS w, SETVAR('k', id), AWAIT(SETVAR('k', 9)) FROM t
	model = map[string]any{}
	q = &c20Query{WhereK: -1, Items: []c20Item{{Kind: "col", Col: "id"}, {Kind: "await_get", Key: "k", Alias: "w"}, {Kind: "set", Key: "k", VKind: "col", VCol: "id"}, {Kind: "await_set", Key: "k", VKind: "num", VNum: 9}}}
	r1, _ = c20Model(q, table, model)
	// main pass leaves k=3; deferred: row1 read -> 3, row1 write 9, row2 read -> 9, ...
	eq("awaited", r1, `[{"id":1,"w":3},{"id":2,"w":9},{"id":3,"w":9}]`)
	if model["k"] != 9.0 {
		t.Errorf("k=%v", model["k"])
	}
	// a nested select writes the same context; CASE writes only in the arm taken; FROM dual is one row
	model = map[string]any{}
	q = &c20Query{WhereK: -1, Items: []c20Item{{Kind: "setsub", Key: "k", VKind: "num", VNum: 5, Key2: "k", Alias: "t0"}, {Kind: "case_set", Key: "hi", Key2: "lo", CaseK: 10}, {Kind: "if_get", Key: "hi", Key2: "lo", CaseK: 10, Alias: "i2"}}}
	r1, _ = c20Model(q, table, model)
	eq("nested-and-case", r1, `[{"t0":{"g2":5},"i2":10},{"t0":{"g2":5},"i2":2},{"t0":{"g2":5},"i2":20}]`)
	if model["hi"] != 20.0 || model["lo"] != 2.0 || model["k"] != 5.0 {
		t.Errorf("registers: %v", model)
	}
	model = map[string]any{"k": true}
	q = &c20Query{WhereK: -1, Dual: true, Items: []c20Item{{Kind: "get", Key: "k", Alias: "g"}, {Kind: "set", Key: "k", VKind: "null"}}}
	r1, _ = c20Model(q, table, model)
	eq("dual", r1, `[{"g":true}]`)
	if v, ok := model["k"]; !ok || v != nil {
		t.Errorf("k must hold NULL: %v %v", v, ok)
	}
	// rows that are arrays: the result has the nesting of the source, rows are still evaluated in order
	model = map[string]any{}
	q = &c20Query{WhereK: 10, Grid: true, Items: []c20Item{{Kind: "get", Key: "k", Alias: "g"}, {Kind: "set", Key: "k", VKind: "col", VCol: "id"}}}
	r1, _ = c20Model(q, table, model)
	eq("grid", r1, `[[{"g":null}],[{"g":1}]]`)
	// a ragged source [row1, [row2], row3]: source order
	model = map[string]any{}
	q = &c20Query{WhereK: -1, Ragged: true, Items: []c20Item{{Kind: "get", Key: "k", Alias: "g"}, {Kind: "set", Key: "k", VKind: "col", VCol: "id"}}}
	r1, _ = c20Model(q, table, model)
	eq("ragged", r1, `[{"g":null},[{"g":1}],{"g":2}]`)
	if model["k"] != 3.0 {
		t.Errorf("k=%v", model["k"])
	}
	q.WhereK = 10
	model = map[string]any{}
	r1, _ = c20Model(q, table, model)
	eq("ragged with WHERE", r1, `[{"g":null},[],{"g":1}]`)
	// GROUP BY b HAVING COUNT(*) >= 2 over b = s, NULL, t, s: the select list runs for the one group that passes
	gtable := rowsOf(t, `[{"id":1,"a":10,"b":"s"},{"id":2,"a":0,"b":null},{"id":3,"a":20,"b":"t"},{"id":4,"a":20,"b":"s"}]`)
	model = map[string]any{"n": 0.0}
	q = &c20Query{WhereK: -1, GroupBy: true, HavingK: 2, Items: []c20Item{{Kind: "get", Key: "n", Alias: "seen"}, {Kind: "set", Key: "n", VKind: "num", VNum: 7, SetAlias: "w"}}}
	r1, _ = c20Model(q, gtable, model)
	eq("group by having", r1, `[{"b":"s","seen":0}]`)
	q.HavingK = 0
	model = map[string]any{}
	r1, _ = c20Model(q, gtable, model)
	eq("group by", r1, `[{"b":"s","seen":null},{"b":null,"seen":7},{"b":"t","seen":7}]`)
}
