package main

import (
	"encoding/json"
	"fmt"
	"strings"

	"pgregory.net/rapid"

	"verif/casefmt"
)

// C20 — SETVAR/GETVAR behave as per-key registers in evaluation order.
//
// A case is a history: 1-4 queries sharing one caller-owned variable map, each
// over 0-5 rows with a select list interleaving SETVAR/GETVAR over 1-3 keys
// with plain columns and (optionally) ASYNC/SPIN co-runners whose goroutines
// and latencies are scheduled by the simulator. A sequential register model
// replays the history in (query, row, item) order.

type c20Item struct {
	Kind    string `json:"kind"`              // col | set | get | async | spin | getsub | setv_async | case_set | if_get
	KeySQL  string `json:"key_sql,omitempty"` // how the key is written in SQL (quoted string, number, expression)
	Key2    string `json:"key2,omitempty"`
	Key2SQL string `json:"key2_sql,omitempty"`
	CaseK   int    `json:"case_k,omitempty"`
	Key     string `json:"key,omitempty"`
	Alias   string `json:"alias,omitempty"`
	Col     string `json:"col,omitempty"`
	// set: value expression
	VKind string  `json:"vkind,omitempty"` // col | num | str | null | sum | getvar
	VCol  string  `json:"vcol,omitempty"`
	VNum  float64 `json:"vnum,omitempty"`
	VStr  string  `json:"vstr,omitempty"`
	VKey  string  `json:"vkey,omitempty"`
	Site  int     `json:"site,omitempty"`
	// SetAlias: the SETVAR item is written with an alias (SETVAR(k, v) AS w)
	SetAlias string `json:"set_alias,omitempty"`
}

type c20Query struct {
	Grid   bool   `json:"grid,omitempty"`   // FROM g: the rows of t, two to an inner array (rows that are arrays themselves)
	Ragged bool   `json:"ragged,omitempty"` // FROM r: the rows of t, every second one wrapped in an inner array of its own (objects and arrays side by side)
	Order  string `json:"order,omitempty"`  // ORDER BY on a column the select list does not produce: rows are still evaluated in source order
	// GroupBy: SELECT b, <items> FROM t .. GROUP BY b [HAVING COUNT(*) >= HavingK]: the select list runs once per group
	// that passes HAVING, groups in order of first appearance; a SETVAR item may carry an alias (it still adds no column)
	GroupBy bool      `json:"group_by,omitempty"`
	HavingK int       `json:"having_k,omitempty"`
	Twice   bool      `json:"twice,omitempty"` // Exec is called a second time on the same Query
	Items   []c20Item `json:"items"`
	WhereK  int       `json:"where_k"` // -1 none; else  a >= WhereK
	Dual    bool      `json:"dual"`
	SQL     string    `json:"sql"`
}

type c20Expect struct {
	Queries []c20Query       `json:"queries"`
	Rows    [][]any          `json:"rows"`  // expected rows per query
	Rows2   [][]any          `json:"rows2"` // expected rows of the second Exec (nil: not executed twice)
	Vars    []map[string]any `json:"vars"`  // expected caller map after each query
	Init    map[string]any   `json:"init"`
}

func (it c20Item) ksql() string {
	if it.KeySQL != "" {
		return it.KeySQL
	}
	return "'" + it.Key + "'"
}

func (it c20Item) sql() string {
	switch it.Kind {
	case "case_set":
		// only the arm that is taken may write
		return fmt.Sprintf("CASE WHEN a >= %d THEN SETVAR(%s, a) ELSE SETVAR(%s, id) END", it.CaseK, it.ksql(), it.k2sql())
	case "if_get":
		return fmt.Sprintf("IF(a >= %d, GETVAR(%s), GETVAR(%s)) AS %s", it.CaseK, it.ksql(), it.k2sql(), it.Alias)
	case "await_get":
		// AWAIT defers the read until every row has been evaluated: it sees the register's final value
		return fmt.Sprintf("AWAIT(GETVAR(%s)) AS %s", it.ksql(), it.Alias)
	case "await_set":
		// AWAIT defers the write as well: it happens after every row has been evaluated, in row order
		v := trimFloat(it.VNum)
		switch it.VKind {
		case "col":
			v = "a"
		case "getvar":
			v = fmt.Sprintf("GETVAR('%s')", it.VKey)
		}
		return fmt.Sprintf("AWAIT(SETVAR(%s, %s))", it.ksql(), v)
	case "col":
		return it.Col
	case "get":
		return fmt.Sprintf("GETVAR(%s) AS %s", it.ksql(), it.Alias)
	case "async":
		return fmt.Sprintf("ASYNC.fx(%d, a) AS %s", it.Site, it.Alias)
	case "spin":
		return fmt.Sprintf("SPINASYNC.fx(%d, a)", it.Site)
	case "getsub":
		return fmt.Sprintf("(SELECT GETVAR(%s) AS g FROM dual) AS %s", it.ksql(), it.Alias)
	case "setsub":
		// a nested select is a query object of its own writing the same variable context
		v := "a"
		if it.VKind == "num" {
			v = trimFloat(it.VNum)
		}
		if it.Key2 != "" {
			return fmt.Sprintf("(SELECT SETVAR(%s, %s), GETVAR(%s) AS g2 FROM dual) AS %s", it.ksql(), v, it.k2sql(), it.Alias)
		}
		return fmt.Sprintf("(SELECT SETVAR(%s, %s) FROM dual) AS %s", it.ksql(), v, it.Alias)
	case "setv_async":
		return fmt.Sprintf("ASYNC.setv(%d, 'zz', id) AS %s", it.Site, it.Alias)
	case "set":
		var v string
		switch it.VKind {
		case "col":
			v = it.VCol
		case "num":
			v = trimFloat(it.VNum)
		case "str":
			v = sqlLit(it.VStr)
		case "null":
			v = "NULL"
		case "sum":
			v = "a + id"
		case "getvar":
			v = fmt.Sprintf("GETVAR('%s')", it.VKey)
		case "bool":
			v = map[bool]string{true: "TRUE", false: "FALSE"}[it.VNum == 1]
		}
		if it.SetAlias != "" {
			return fmt.Sprintf("SETVAR(%s, %s) AS %s", it.ksql(), v, it.SetAlias)
		}
		return fmt.Sprintf("SETVAR(%s, %s)", it.ksql(), v)
	}
	return "1"
}

func (it c20Item) k2sql() string {
	if it.Key2SQL != "" {
		return it.Key2SQL
	}
	return "'" + it.Key2 + "'"
}

// c20Keys: registers are named by the printed value of the key expression; a quoted
// string and a number that print alike name the same register, 1.5 and 2 do not.
type c20Key struct{ name, sql string }

var c20KeyForms = [][]c20Key{
	{{"k1", "'k1'"}},
	{{"k2", "'k2'"}},
	{{"k3", "'k3'"}},
	{{"1", "1"}, {"1", "'1'"}},
	{{"2", "2"}, {"2", "'2'"}, {"2", "1 + 1"}},
	{{"1.5", "1.5"}, {"1.5", "'1.5'"}, {"1.5", "3 / 2"}},
	{{"0.5", "0.5"}},
	{{"ü", "'ü'"}},
}

// c20Model replays one query on the register model: the rows the first Exec must return, and - when the query is
// executed twice - the rows of the second Exec (rows2). model is updated in place.
func c20Model(q *c20Query, table []any, model map[string]any) (rows1, rows2 []any) {
	// sequential register model
	src := table
	if q.Dual {
		src = []any{map[string]any{}}
	}
	whereK := q.WhereK
	if q.GroupBy {
		// the rows the select list sees are the groups: one per value of b among the rows passing WHERE, in order of
		// first appearance, those that HAVING lets through
		var order []any
		count := map[any]int{}
		for _, r := range table {
			row := r.(map[string]any)
			if q.WhereK >= 0 && row["a"].(float64) < float64(q.WhereK) {
				continue
			}
			if count[row["b"]] == 0 {
				order = append(order, row["b"])
			}
			count[row["b"]]++
		}
		src = []any{}
		for _, k := range order {
			if q.HavingK > 0 && count[k] < q.HavingK {
				continue
			}
			src = append(src, map[string]any{"b": k})
		}
		whereK = -1
	}
	passes := 1
	if q.Twice {
		passes = 2
	}
	var rows []any
	for pass := 0; pass < passes; pass++ {
		rows1 = rows
		rows = []any{}
		var deferred []func()
		byIdx := map[int]any{}
		for si := range src {
			row := src[si].(map[string]any)
			if whereK >= 0 && row["a"].(float64) < float64(whereK) {
				continue
			}
			out := map[string]any{}
			if q.GroupBy {
				out["b"] = row["b"]
			}
			for _, it := range q.Items {
				switch it.Kind {
				case "col":
					out[it.Col] = row[it.Col]
				case "get":
					out[it.Alias] = model[it.Key] // nil when never set
				case "async":
					out[it.Alias] = stubValue("fx", it.Site, row["a"])
				case "await_get":
					it, out := it, out
					out[it.Alias] = nil
					deferred = append(deferred, func() { out[it.Alias] = model[it.Key] })
				case "await_set":
					it, row := it, row
					deferred = append(deferred, func() {
						switch it.VKind {
						case "num":
							model[it.Key] = it.VNum
						case "col":
							model[it.Key] = row["a"]
						case "getvar":
							model[it.Key] = model[it.VKey]
						}
					})
				case "getsub":
					out[it.Alias] = map[string]any{"g": model[it.Key]}
				case "case_set":
					if row["a"].(float64) >= float64(it.CaseK) {
						model[it.Key] = row["a"]
					} else {
						model[it.Key2] = row["id"]
					}
				case "if_get":
					if row["a"].(float64) >= float64(it.CaseK) {
						out[it.Alias] = model[it.Key]
					} else {
						out[it.Alias] = model[it.Key2]
					}
				case "setsub":
					if it.VKind == "num" {
						model[it.Key] = it.VNum
					} else {
						model[it.Key] = row["a"]
					}
					if it.Key2 != "" {
						out[it.Alias] = map[string]any{"g2": model[it.Key2]}
					} else {
						out[it.Alias] = map[string]any{}
					}
				case "setv_async":
					out[it.Alias] = nil
				case "set":
					var v any
					switch it.VKind {
					case "col":
						v = row[it.VCol]
					case "num":
						v = it.VNum
					case "str":
						v = it.VStr
					case "null":
						v = nil
					case "sum":
						v = row["a"].(float64) + row["id"].(float64)
					case "getvar":
						v = model[it.VKey]
					case "bool":
						v = it.VNum == 1
					}
					model[it.Key] = v
				}
			}
			rows = append(rows, out)
			byIdx[si] = out
		}
		// awaited reads and writes happen after the last row of this evaluation, in (row, item) order
		for _, d := range deferred {
			d()
		}
		if q.Grid {
			// the result has the nesting of the source
			nested := []any{}
			k := 0
			for i := 0; i < len(src); i += 2 {
				inner := []any{}
				for j := i; j < i+2 && j < len(src); j++ {
					if q.WhereK < 0 || src[j].(map[string]any)["a"].(float64) >= float64(q.WhereK) {
						inner = append(inner, rows[k])
						k++
					}
				}
				nested = append(nested, inner)
			}
			rows = nested
		}
		if q.Ragged {
			// the result has the nesting of the source: rows at odd positions sit in an array of their own
			nested := []any{}
			for i := range src {
				out, pass := byIdx[i]
				switch {
				case i%2 == 1 && pass:
					nested = append(nested, []any{out})
				case i%2 == 1:
					nested = append(nested, []any{})
				case pass:
					nested = append(nested, out)
				}
			}
			rows = nested
		}
	}
	if !q.Twice {
		rows1 = rows
	}
	if q.Twice {
		return rows1, rows
	}
	return rows1, nil
}

func genC20(t *rapid.T) *Bundle {
	n := rapid.IntRange(0, 5).Draw(t, "nrows")
	table := []any{}
	for i := 0; i < n; i++ {
		row := map[string]any{"id": float64(i + 1), "a": float64(rapid.IntRange(0, 4).Draw(t, "a") * 10)}
		if rapid.IntRange(0, 2).Draw(t, "b_null") == 0 {
			row["b"] = nil
		} else {
			row["b"] = rapid.SampledFrom([]string{"s", "t", ""}).Draw(t, "b")
		}
		table = append(table, row)
	}
	groups := rapid.SliceOfNDistinct(rapid.IntRange(0, len(c20KeyForms)-1), 1, 3, func(i int) int { return i }).Draw(t, "key_groups")
	var keys []string
	for _, gi := range groups {
		keys = append(keys, c20KeyForms[gi][0].name)
	}
	// drawKey picks a register and one of the ways its key can be written
	drawKey := func(label string) (string, string) {
		g := c20KeyForms[rapid.SampledFrom(groups).Draw(t, label)]
		f := rapid.SampledFrom(g).Draw(t, label+"_form")
		return f.name, f.sql
	}
	init := map[string]any{}
	if rapid.Bool().Draw(t, "preset") {
		init[keys[0]] = rapid.SampledFrom([]any{"init", "1", float64(1), true}).Draw(t, "preset_value")
	}
	nq := rapid.IntRange(1, 4).Draw(t, "nqueries")
	exp := c20Expect{Init: init}
	model := map[string]any{}
	for k, v := range init {
		model[k] = v
	}
	site := 0
	var ops []casefmt.Op
	var sites []int
	varCorunner := false
	// a source that mixes objects and arrays of objects (every non-dual query of the history reads it)
	ragged := rapid.IntRange(0, 9).Draw(t, "ragged_source") == 0
	reexecs := 0
	for qi := 0; qi < nq; qi++ {
		// now and then Exec is called once more on a *Query built earlier in the history (other queries over the same
		// map have run since): the model evaluates that query's items again, against the registers as they are now
		if qi >= 2 && reexecs == 0 && !ragged && rapid.IntRange(0, 3).Draw(t, "reexec") == 0 {
			k := rapid.IntRange(0, qi-2).Draw(t, "reexec_of")
			q := exp.Queries[k]
			q.Twice = false
			rows, _ := c20Model(&q, table, model)
			snap := map[string]any{}
			for kk, v := range model {
				snap[kk] = v
			}
			exp.Queries = append(exp.Queries, q)
			exp.Rows = append(exp.Rows, rows)
			exp.Rows2 = append(exp.Rows2, nil)
			exp.Vars = append(exp.Vars, snap)
			ops = append(ops, casefmt.Op{Doc: 0, Vars: 0, Query: q.SQL, ReexecOf: k + 1})
			reexecs++
			continue
		}
		q := c20Query{WhereK: -1}
		q.Dual = rapid.IntRange(0, 5).Draw(t, "dual") == 0
		q.Grid = !q.Dual && rapid.IntRange(0, 5).Draw(t, "grid") == 0
		if ragged && !q.Dual {
			q.Grid, q.Ragged = false, true
		}
		q.GroupBy = !q.Dual && !q.Grid && !q.Ragged && rapid.IntRange(0, 7).Draw(t, "group_by") == 0
		if q.GroupBy {
			q.HavingK = rapid.IntRange(0, 2).Draw(t, "having_k")
		}
		if !q.Dual && rapid.IntRange(0, 2).Draw(t, "has_where") == 0 {
			q.WhereK = rapid.IntRange(0, 4).Draw(t, "where_k") * 10
		}
		ni := rapid.IntRange(1, 7).Draw(t, "nitems")
		usedCols := map[string]bool{}
		for i := 0; i < ni; i++ {
			kinds := []string{"set", "get", "set", "get", "col", "async", "spin", "getsub", "setv_async", "case_set", "if_get", "await_get", "setsub", "await_set"}
			if q.Dual || q.GroupBy {
				kinds = []string{"set", "get"}
			}
			it := c20Item{Kind: rapid.SampledFrom(kinds).Draw(t, "kind")}
			switch it.Kind {
			case "col":
				it.Col = rapid.SampledFrom([]string{"id", "a"}).Draw(t, "col")
				if usedCols[it.Col] {
					continue
				}
				usedCols[it.Col] = true
			case "get":
				it.Key, it.KeySQL = drawKey("key")
				it.Alias = fmt.Sprintf("g%d", i)
			case "case_set":
				it.Key, it.KeySQL = drawKey("key")
				it.Key2, it.Key2SQL = drawKey("key2")
				it.CaseK = rapid.IntRange(0, 4).Draw(t, "case_k") * 10
			case "await_get":
				it.Key, it.KeySQL = drawKey("key")
				it.Alias = fmt.Sprintf("w%d", i)
			case "await_set":
				it.Key, it.KeySQL = drawKey("key")
				it.VKind = rapid.SampledFrom([]string{"num", "col", "getvar"}).Draw(t, "await_set_v")
				switch it.VKind {
				case "num":
					it.VNum = float64(rapid.SampledFrom([]int{8, 9}).Draw(t, "await_set_num"))
				case "getvar":
					it.VKey = rapid.SampledFrom(keys).Draw(t, "await_set_key")
				}
			case "if_get":
				it.Key, it.KeySQL = drawKey("key")
				it.Key2, it.Key2SQL = drawKey("key2")
				it.CaseK = rapid.IntRange(0, 4).Draw(t, "case_k") * 10
				it.Alias = fmt.Sprintf("i%d", i)
			case "async", "spin":
				site++
				it.Site = site
				it.Alias = fmt.Sprintf("y%d", i)
				sites = append(sites, site)
			case "getsub":
				it.Key, it.KeySQL = drawKey("key")
				it.Alias = fmt.Sprintf("s%d", i)
			case "setsub":
				it.Key, it.KeySQL = drawKey("key")
				it.Alias = fmt.Sprintf("t%d", i)
				it.VKind = rapid.SampledFrom([]string{"num", "col"}).Draw(t, "setsub_v")
				if it.VKind == "num" {
					it.VNum = float64(rapid.SampledFrom([]int{5, 6, -1}).Draw(t, "setsub_num"))
				}
				if rapid.Bool().Draw(t, "setsub_reads") {
					it.Key2, it.Key2SQL = drawKey("key2")
				}
			case "setv_async":
				// user code on an ASYNC goroutine writes another key ('zz') of the same variable context
				site++
				it.Site = site
				it.Alias = fmt.Sprintf("w%d", i)
				sites = append(sites, site)
				varCorunner = true
			case "set":
				it.Key, it.KeySQL = drawKey("key")
				vk := []string{"col", "num", "str", "null", "sum", "getvar", "bool", "str", "num"}
				if q.Dual || q.GroupBy {
					vk = []string{"num", "str", "null", "getvar", "bool"}
				}
				if q.GroupBy && rapid.Bool().Draw(t, "set_alias") {
					it.SetAlias = fmt.Sprintf("w%d", i)
				}
				it.VKind = rapid.SampledFrom(vk).Draw(t, "vkind")
				switch it.VKind {
				case "col":
					it.VCol = rapid.SampledFrom([]string{"a", "b", "id"}).Draw(t, "vcol")
				case "num":
					it.VNum = float64(rapid.SampledFrom([]int{0, 1, 7, -2, 3}).Draw(t, "vnum"))
				case "str":
					// incl. strings that print like numbers, booleans and NULL: a register holds the value written, not a look-alike
					it.VStr = rapid.SampledFrom([]string{"p", "q", "", "1", "0", "7", "true", "<nil>", "é", "日本"}).Draw(t, "vstr")
				case "getvar":
					it.VKey = rapid.SampledFrom(keys).Draw(t, "vkey")
				case "bool":
					it.VNum = float64(rapid.IntRange(0, 1).Draw(t, "vbool"))
				}
			}
			q.Items = append(q.Items, it)
		}
		if len(q.Items) == 0 {
			q.Items = append(q.Items, c20Item{Kind: "get", Key: keys[0], Alias: "g0"})
		}
		var sel []string
		for _, it := range q.Items {
			sel = append(sel, it.sql())
		}
		q.SQL = "SELECT " + strings.Join(sel, ", ") + " FROM "
		if q.GroupBy {
			q.SQL = "SELECT b, " + strings.Join(sel, ", ") + " FROM "
		}
		if q.Dual {
			q.SQL += "dual"
		} else {
			q.SQL += map[bool]string{false: "t", true: "g"}[q.Grid]
			if q.Ragged {
				q.SQL = strings.TrimSuffix(q.SQL, "t") + "r"
			}
			if q.WhereK >= 0 {
				q.SQL += fmt.Sprintf(" WHERE a >= %d", q.WhereK)
			}
			if q.GroupBy {
				q.SQL += " GROUP BY b"
				if q.HavingK > 0 {
					q.SQL += fmt.Sprintf(" HAVING COUNT(*) >= %d", q.HavingK)
				}
			}
			if !q.Grid && !q.Ragged && !q.GroupBy && rapid.IntRange(0, 4).Draw(t, "order_by") == 0 {
				cand := []string{}
				for _, c := range []string{"id", "a"} {
					if !usedCols[c] {
						cand = append(cand, c)
					}
				}
				if len(cand) > 0 {
					q.Order = rapid.SampledFrom(cand).Draw(t, "order_col") + rapid.SampledFrom([]string{" DESC", ""}).Draw(t, "order_dir")
					q.SQL += " ORDER BY " + q.Order
				}
			}
		}
		q.Twice = rapid.IntRange(0, 3).Draw(t, "exec_twice") == 0
		rows1, rows := c20Model(&q, table, model)
		snap := map[string]any{}
		for k, v := range model {
			snap[k] = v
		}
		exp.Queries = append(exp.Queries, q)
		exp.Rows = append(exp.Rows, rows1)
		if q.Twice {
			exp.Rows2 = append(exp.Rows2, rows)
		} else {
			exp.Rows2 = append(exp.Rows2, nil)
		}
		exp.Vars = append(exp.Vars, snap)
		// (one query in five is written for the PostgreSQL escaping dialect: the text goes through its pre-processor)
		ops = append(ops, casefmt.Op{Doc: 0, Vars: 0, Query: q.SQL, ExecTwice: q.Twice, Postgres: rapid.IntRange(0, 4).Draw(t, "postgres_dialect") == 0})
	}
	sim := drawSim(t, "")
	c := casefmt.Case{Prop: "C20", Sim: sim, Docs: []json.RawMessage{rawDoc(map[string]any{"t": table, "g": c20Grid(table), "r": c20Ragged(table)})}, Vars: []map[string]any{init},
		Clients: []casefmt.Client{{Name: "client0", Ops: ops}}}
	c.Stubs.Lat = drawLatencies(t, sites, 5)
	tags := []string{}
	if reexecs > 0 {
		tags = append(tags, "reexec_after_other_queries")
	}
	// a caller that prepares all its queries before it runs the first: nothing of a query is evaluated when it is built
	// (no derived tables or joins here), so the history - and the model - is the same
	if nq > 1 && rapid.IntRange(0, 3).Draw(t, "build_first") == 0 {
		c.Clients[0].BuildFirst = true
		tags = append(tags, "build_first")
	}
	if len(sites) > 0 {
		tags = append(tags, "with_async_corunners")
	}
	if varCorunner {
		tags = append(tags, "var_corunner")
	}
	if ragged {
		tags = append(tags, "ragged")
	}
	return &Bundle{Prop: "C20", Kind: "history", Case: c, Expect: mustJSON(exp), Tags: tags}
}

// c20Ragged: the rows of the table, every second one in an inner array of its own.
func c20Ragged(table []any) []any {
	g := []any{}
	for i, row := range table {
		if i%2 == 1 {
			g = append(g, []any{row})
		} else {
			g = append(g, row)
		}
	}
	return g
}

func c20Grid(table []any) []any {
	g := []any{}
	for i := 0; i < len(table); i += 2 {
		end := i + 2
		if end > len(table) {
			end = len(table)
		}
		g = append(g, append([]any{}, table[i:end]...))
	}
	return g
}

func evalC20(b *Bundle, r *Runner) []*Violation {
	var exp c20Expect
	if err := json.Unmarshal(b.Expect, &exp); err != nil {
		infra("C20: bad expectation: %v", err)
	}
	// histories with user code writing the variable context from ASYNC goroutines run in the -race child
	race := b.hasTag("var_corunner")
	o := r.Run(&b.Case, race)
	if hv := processHealth(b, o); len(hv) > 0 {
		return hv
	}
	for i, sig := range o.Races {
		if strings.Contains(sig, "VarFunc") {
			return []*Violation{mkViolation(b, "VAR_CONTEXT_RACE", raceFuncSig(sig), "unsynchronised access to the variable context: "+sig+"\n"+o.RaceTexts[i], o)}
		}
		r.Stats.probe("race_outside_variable_context_left_to_C13")
	}
	if len(o.Ops) != len(exp.Queries) {
		infra("C20: expected %d op observations, got %d", len(exp.Queries), len(o.Ops))
	}
	for qi := range exp.Queries {
		op := &o.Ops[qi]
		q := exp.Queries[qi].SQL
		if failed(op) {
			return []*Violation{mkViolation(b, "VAR_QUERY_FAILED", "", fmt.Sprintf("query %d %q failed: %s%s", qi, q, op.NewErr, op.ExecErr), o)}
		}
		got := normJSON(op.Rows)
		want := exp.Rows[qi]
		if want == nil {
			want = []any{}
		}
		if exp.Queries[qi].Order != "" {
			// the order of the output rows is ORDER BY's business (C05); the values in them are the registers'
			if ga, ok := asArray(got); ok && multisetEqual(ga, want) {
				got = any(want)
			}
		}
		if !jsonEqual(got, want) {
			cls := "REGISTER_READ"
			ga, ok := asArray(got)
			if ok && len(ga) == len(want) {
				// a column that is no GETVAR alias differing means SETVAR leaked a column or a co-runner misbehaved
				for i := range ga {
					gm, _ := ga[i].(map[string]any)
					wm, _ := want[i].(map[string]any)
					if len(gm) != len(wm) {
						cls = "SETVAR_ADDED_COLUMN"
					}
				}
			}
			return []*Violation{mkViolation(b, cls, "", fmt.Sprintf("query %d of %d: %s\n history so far: %s\n model  %s\n engine %s", qi+1, len(exp.Queries), q, c20History(&exp, qi), canonText(want), compact(op.Rows)), o)}
		}
		if string(op.Rows) != string(op.RowsAfter) && !exp.Queries[qi].Twice {
			return []*Violation{mkViolation(b, "RESULT_CHANGED_AFTER_RETURN", "", q, o)}
		}
		if exp.Queries[qi].Twice {
			want2 := exp.Rows2[qi]
			if want2 == nil {
				want2 = []any{}
			}
			if op.Exec2 != "ok" {
				return []*Violation{mkViolation(b, "VAR_QUERY_FAILED", "second_exec", fmt.Sprintf("query %d %q: the second Exec on the same Query: %s", qi, q, op.Exec2), o)}
			}
			if !jsonEqual(normJSON(op.Rows2), want2) {
				return []*Violation{mkViolation(b, "REGISTER_READ", "second_exec", fmt.Sprintf("query %d of %d, Exec called a second time on the same Query: %s\n history so far: %s\n model  %s\n engine %s", qi+1, len(exp.Queries), q, c20History(&exp, qi), canonText(want2), compact(op.Rows2)), o)}
			}
			r.Stats.probe("second_exec_on_same_query_compared")
		}
		wantVars := exp.Vars[qi]
		gotVars := normJSON(op.VarsAfter)
		if gm, ok := gotVars.(map[string]any); ok {
			delete(gm, "zz") // written by ASYNC co-runners in schedule order: not part of the register model
		}
		if !jsonEqual(gotVars, wantVars) {
			return []*Violation{mkViolation(b, "REGISTER_FINAL_STATE", "", fmt.Sprintf("after query %d of %d: %s\n history so far: %s\n model map  %s\n caller map %s", qi+1, len(exp.Queries), q, c20History(&exp, qi), canonText(wantVars), compact(op.VarsAfter)), o)}
		}
	}
	if len(exp.Queries) > 1 {
		r.Stats.probe("multi_query_histories")
	}
	if b.hasTag("with_async_corunners") && o.Sim.Spawns > 0 {
		r.Stats.probe("histories_with_concurrent_corunners")
	}
	return nil
}

func c20History(e *c20Expect, upto int) string {
	var qs []string
	for i := 0; i <= upto && i < len(e.Queries); i++ {
		qs = append(qs, e.Queries[i].SQL)
	}
	return strings.Join(qs, " ; ")
}

func init() {
	register(&Property{
		ID: "C20", Plain: true, Race: true, Level: "exploration",
		Rule: "cases = rapid-generated histories: 1-4 queries sharing one caller-owned variable map (optionally pre-set), each over 0-5 rows (or FROM dual) with 1-7 select items interleaving SETVAR(k, column/nullable column/literal/NULL/expression/GETVAR(k')) and GETVAR(k) over 1-3 keys with plain columns, nested (SELECT GETVAR(k) FROM dual) reads, CASE arms that write, IF over reads, keys written as strings/numbers/expressions, look-alike values (1, '1', TRUE, 'true', NULL, '<nil>'), ASYNC/SPINASYNC stub co-runners and ASYNC user code writing another key of the same variable context (those histories run in the -race child) under simulated latencies, np/walk/pct/sync schedules and adversarial map orders, optional WHERE; a sequential per-key register model replays the history in (query, row, item) order and must equal every GETVAR column, the absence of SETVAR columns and the caller's map after each Exec; non-trivial = >=2 tasks runnable at some yield or a non-identity map order applied; distinct = distinct case-file hash; SETVAR in nested selects, awaited writes, a second Exec on the same Query, array-of-arrays sources, ORDER BY on an unselected column; sources mixing objects and arrays of objects (rows in source order), non-ASCII keys and values, one query in five through the PostgreSQL-dialect pre-processor, GROUP BY .. HAVING with aliased SETVAR items (the select list runs once per group that passes)",
		Gen:  genC20, Eval: evalC20, QuickChecks: 1000,
		Assumptions: []string{
			"SETVAR/GETVAR are immediate functions evaluated on the client task, so there is no concurrent register history to linearise: the simulator contributes the history search, the model, and co-runner goroutines/latencies/map orders that must not disturb evaluation order",
			"values stored are scalars (numbers, strings, NULL)",
		},
		Components: map[string][]string{
			"real": {"genql (instrumented copy of /repo working tree)", "sqlparser", "compare", "Go runtime"},
			"stub": {"user function fx (co-runner)", "goroutine scheduler (zzsim)", "clock (zzsim)", "map iteration order (zzsim)"},
		},
	})
}
