package main

import (
	"encoding/json"
	"fmt"
	"strings"

	"pgregory.net/rapid"

	"verif/casefmt"
)

// C10 — no query, option set or input can crash or hang the host process.
//
// Decided by simulation: user code failing or panicking at its k-th call under
// every execution strategy and clause position, PARALLEL joins whose ON fails
// on some row, all under seeded schedules/latencies. Observables: a panic
// escaping New/Exec, a panic unwinding a library goroutine (kills the process
// in production), deadlock, step budget (livelock), fatal runtime error (stack
// overflow, concurrent map access), and - in -race runs - unsynchronised map
// accesses (the runtime turns those into an unrecoverable fatal error).
// Sampled only: the input-space part (named cases, mutated queries, arbitrary
// byte strings, option sets, odd documents).

type c10Expect struct {
	Kind  string `json:"kind"`
	Query string `json:"query"`
	Race  bool   `json:"race,omitempty"`
}

var c10BaseQueries = []string{
	"SELECT id, a FROM t WHERE a >= 10",
	"SELECT * FROM t x JOIN u y ON x.id = y.id",
	"SELECT * FROM t x LEFT JOIN u y ON x.id < y.id",
	"SELECT * FROM t x PARALLEL JOIN u y ON x.id = y.id",
	"SELECT s, COUNT(*) AS c FROM t GROUP BY s HAVING COUNT(*) > 0",
	"SELECT id, (SELECT v FROM n WHERE v > 1) AS sub FROM t",
	"SELECT id FROM t WHERE EXISTS (SELECT v FROM n)",
	"SELECT id FROM t WHERE id IN (SELECT v FROM n)",
	"WITH c AS (SELECT id FROM t) SELECT * FROM c",
	"WITH c1 AS (SELECT id FROM t), c2 AS (SELECT * FROM c1) SELECT * FROM c2",
	"SELECT id FROM t UNION SELECT id FROM u",
	"SELECT id FROM t UNION ALL SELECT id FROM u",
	"SELECT DISTINCT a FROM t ORDER BY a DESC LIMIT 2 OFFSET 1",
	"SELECT * FROM (SELECT id, a FROM t) d WHERE d.a > 5",
	"SELECT id, CASE WHEN a > 10 THEN 'big' ELSE 'small' END AS x FROM t",
	"SELECT id, (SELECT ip FROM `<-meta`) AS m FROM t",
	"SELECT v FROM `t.n`",
	"SELECT id FROM `t[0:2]`",
	"SELECT id FROM `t[1]`",
	"SELECT `n[0].v` AS first FROM t",
	"SELECT id, ASYNC.fx(1, a) AS y FROM t",
	"SELECT id, SPIN.fx(1, a), SPINASYNC.fx(2, a) FROM t",
	"SELECT id, ONCE.fx(1, a) AS o FROM t",
	"SELECT id, FUSE(o) FROM t",
	"SELECT id, IF(f, a, s) AS x, ARRAY(a, s) AS arr, CONCAT(s, '-', a) AS c FROM t",
	"SELECT id FROM t WHERE s LIKE 'x%' AND a BETWEEN 0 AND 20 AND id NOT IN (7, 8)",
	"SELECT SUM(a) AS s, COUNT(*) AS c FROM t WHERE f IS TRUE",
	"SELECT id, SUBSTR(s, 1, 1) AS c, -a AS neg, (1, 2) AS tup FROM t",
	"SELECT 1 + 1 AS two FROM dual",
	"SELECT id, n FROM t ORDER BY id DESC",
	"SELECT id, SETVAR('k', id), GETVAR('k') AS g FROM t",
	"SELECT id, GETVAR('k') AS g FROM t WHERE GETVAR('k') IS NULL",
	"SELECT id, SPIN.fx(1, a DIV (id - 2)), SPINASYNC.fx(2, `n[1].v`) FROM t",
	"SELECT * FROM t x PARALLEL JOIN u y ON x.id = y.id AND SETVAR('k', 1)",
	"SELECT id, (SELECT SETVAR('k', v) FROM n) AS sub FROM t",
	"SELECT id, a FROM grid WHERE a >= 10",
	"SELECT DISTINCT s, (SELECT v FROM n) AS sub FROM grid",
	"SELECT id, ASYNC.fx(1, a) AS y, (SELECT * FROM dual) AS me FROM grid",
	"WITH c AS (SELECT id, (SELECT `<-` AS up FROM dual) AS sub FROM t) SELECT DISTINCT * FROM c",
}

// the cases named in the statement
var c10Named = []struct {
	q         string
	idiomatic bool
}{
	{"SELECT * FROM t NATURAL JOIN u", false},
	{"SELECT * FROM t x NATURAL JOIN u y", false},
	{"SELECT id FROM t UNION SELECT id FROM u UNION SELECT id FROM t", false},
	{"SELECT id FROM t UNION ALL SELECT id FROM u UNION ALL SELECT id FROM t UNION SELECT id FROM u", false},
	{"WITH c AS (SELECT * FROM c) SELECT * FROM c", false},
	{"WITH a AS (SELECT * FROM b), b AS (SELECT * FROM a) SELECT * FROM a", false},
	{"WITH a AS (SELECT * FROM b), b AS (SELECT * FROM c), c AS (SELECT * FROM a) SELECT * FROM b", false},
	{"SELECT id FROM t[0", true},
	{"SELECT id FROM t]0[", true},
	{"SELECT n[0.v FROM t", true},
	{"SELECT n[[0]].v AS x FROM t]]", true},
	{"SELECT id FROM `t[7]`", false},
	{"SELECT id FROM `t[0:9]`", false},
	{"SELECT id FROM `t[5:2]`", false},
	{"SELECT id FROM `t[-1]`", false},
	{"SELECT `n[9].v` AS x FROM t", false},
	{"SELECT id FROM t[7]", true},
	{"SELECT `tags[first]` AS t FROM t", false},
	{"SELECT id FROM `t[(1:`", false},
	{"SELECT id FROM `t[each:each:each:0]`", false},
	{"SELECT `n{v|bogus}` AS c FROM t", false},
	{"SELECT `bogus=>n` AS c FROM t", false},
	{"SELECT `n[(2:1)]` AS c FROM t", false},
	{"SELECT `n[(-1:9)]` AS c FROM t", false},
	{"SELECT `n::::[0]` AS c FROM t", false},
	{"SELECT * FROM t x PARALLEL JOIN u y ON x.id <= y.id AND ONCE.fid(1, TRUE)", false},
	{"SELECT * FROM t x PARALLEL LEFT JOIN u y ON x.id != y.id AND ONCE.fx(1, TRUE)", false},
	{"SELECT id, SETVAR('k', id) FROM t", false},
	{"SELECT id, GETVAR('k') AS g, SETVAR('k', 1), GETVAR('k') AS h FROM t", false},
	{"SELECT * FROM t x PARALLEL JOIN u y ON x.id = y.id AND SETVAR('k', 1)", false},
	{"SELECT * FROM t x PARALLEL LEFT JOIN u y ON x.id < y.id AND SETVAR('k', 1)", false},
	{"SELECT id, SPIN.fx(1, a DIV (id - 2)) FROM t", false},
	{"SELECT id, SPINASYNC.fx(1, `n[1].v`) FROM t", false},
	{"SELECT id, ASYNC.fx(1, a DIV (id - 2)) AS y FROM t", false},
	{"SELECT id, SUBSTR(s, -5, 100) AS x FROM t", false},
	{"SELECT id, SUBSTR(s, 2, -1) AS x, SUBSTR(s, 99, 1) AS y, SUBSTR(s, 0, 0) AS z FROM t", false},
	{"SELECT id, SUBSTR(s, 1.5, 2.5) AS x FROM t", false},
	{"SELECT id, ELEMENTAT(n, 99) AS x FROM t", false},
	{"SELECT id, ELEMENTAT(n, -1) AS x, ELEMENTAT(n, 1.5) AS y FROM t", false},
	{"SELECT id, FIRST(s) AS x, LAST(a) AS y, UNWIND(a) AS z FROM t", false},
	{"SELECT id FROM t LIMIT 0", false},
	{"SELECT id FROM t LIMIT 2 OFFSET 99", false},
	{"SELECT id FROM t LIMIT 99 OFFSET 2", false},
	{"SELECT id FROM t LIMIT 1.5", false},
	{"SELECT id FROM t WHERE s LIKE '('", false},
	{"SELECT id FROM t WHERE s LIKE '[' OR s LIKE '\\\\' OR s LIKE '*' OR s LIKE '+?'", false},
	{"SELECT id, a / 0 AS x, a % 0 AS y, a DIV 0 AS z FROM t", false},
	{"SELECT id, 9223372036854775807 + 1 AS x, -9223372036854775808 - 1 AS y, 1e308 * 10 AS z FROM t", false},
	{"SELECT id, a << 100 AS x, a >> -1 AS y, ~a AS z FROM t", false},
	{"SELECT ((((((((((((((((((((((((((((((((((((((((((((((((((((((((((((a)))))))))))))))))))))))))))))))))))))))))))))))))))))))))))) AS x FROM t", false},
	{"SELECT CASE WHEN a > 0 THEN CASE WHEN a > 0 THEN CASE WHEN a > 0 THEN CASE WHEN a > 0 THEN CASE WHEN a > 0 THEN CASE WHEN a > 0 THEN CASE WHEN a > 0 THEN CASE WHEN a > 0 THEN CASE WHEN a > 0 THEN CASE WHEN a > 0 THEN CASE WHEN a > 0 THEN CASE WHEN a > 0 THEN CASE WHEN a > 0 THEN CASE WHEN a > 0 THEN CASE WHEN a > 0 THEN CASE WHEN a > 0 THEN CASE WHEN a > 0 THEN CASE WHEN a > 0 THEN CASE WHEN a > 0 THEN CASE WHEN a > 0 THEN CASE WHEN a > 0 THEN CASE WHEN a > 0 THEN CASE WHEN a > 0 THEN CASE WHEN a > 0 THEN CASE WHEN a > 0 THEN CASE WHEN a > 0 THEN CASE WHEN a > 0 THEN CASE WHEN a > 0 THEN CASE WHEN a > 0 THEN CASE WHEN a > 0 THEN CASE WHEN a > 0 THEN CASE WHEN a > 0 THEN CASE WHEN a > 0 THEN CASE WHEN a > 0 THEN CASE WHEN a > 0 THEN CASE WHEN a > 0 THEN CASE WHEN a > 0 THEN CASE WHEN a > 0 THEN CASE WHEN a > 0 THEN CASE WHEN a > 0 THEN 1 ELSE 0 END ELSE 0 END ELSE 0 END ELSE 0 END ELSE 0 END ELSE 0 END ELSE 0 END ELSE 0 END ELSE 0 END ELSE 0 END ELSE 0 END ELSE 0 END ELSE 0 END ELSE 0 END ELSE 0 END ELSE 0 END ELSE 0 END ELSE 0 END ELSE 0 END ELSE 0 END ELSE 0 END ELSE 0 END ELSE 0 END ELSE 0 END ELSE 0 END ELSE 0 END ELSE 0 END ELSE 0 END ELSE 0 END ELSE 0 END ELSE 0 END ELSE 0 END ELSE 0 END ELSE 0 END ELSE 0 END ELSE 0 END ELSE 0 END ELSE 0 END ELSE 0 END ELSE 0 END AS x FROM t", false},
	{"SELECT * FROM (SELECT * FROM (SELECT * FROM (SELECT * FROM (SELECT * FROM (SELECT * FROM (SELECT * FROM (SELECT * FROM (SELECT * FROM (SELECT * FROM (SELECT * FROM (SELECT * FROM (SELECT * FROM (SELECT * FROM (SELECT * FROM (SELECT * FROM (SELECT * FROM (SELECT * FROM (SELECT * FROM (SELECT * FROM (SELECT * FROM (SELECT * FROM (SELECT * FROM (SELECT * FROM (SELECT * FROM (SELECT id FROM t) d) d) d) d) d) d) d) d) d) d) d) d) d) d) d) d) d) d) d) d) d) d) d) d) d", false},
	{"SELECT id FROM t WHERE NOT NOT NOT NOT NOT NOT NOT NOT NOT NOT NOT NOT NOT NOT NOT NOT NOT NOT NOT NOT NOT NOT NOT NOT NOT NOT NOT NOT NOT NOT NOT NOT NOT NOT NOT NOT NOT NOT NOT NOT NOT NOT NOT NOT NOT NOT NOT NOT NOT NOT NOT NOT NOT NOT NOT NOT NOT NOT NOT NOT NOT NOT NOT NOT NOT NOT NOT NOT NOT NOT NOT NOT NOT NOT NOT NOT NOT NOT NOT NOT f", false},
	{"SELECT id, CHANGETYPE(a, 'nosuchtype') AS x, CHANGETYPE(n, 'double') AS y FROM t", false},
	{"SELECT id, HASH(a, 'nosuch') AS x, ENCODE(s, 'nosuch') AS y, DECODE(s, 'base64') AS z FROM t", false},
	{"SELECT id, CONSTANT('nosuch') AS x, DATERANGE(1, 2) AS y, TIMESTAMP() AS z FROM t", false},
	// rows are formatted (DISTINCT, distinct=>) while they hold, or once held, the `<-` back-reference
	{"SELECT DISTINCT id, (SELECT `<-` AS up FROM dual) AS s FROM t", false},
	{"WITH c AS (SELECT id, (SELECT `<-` AS up FROM dual) AS s FROM t) SELECT DISTINCT id, s FROM c", false},
	{"WITH c AS (SELECT id, (SELECT `<-` AS up, v FROM n) AS s FROM t) SELECT DISTINCT * FROM c", false},
	{"WITH c AS (SELECT id, (SELECT `<-` AS up FROM dual) AS s FROM t) SELECT * FROM `distinct=>c`", false},
	{"WITH c AS (SELECT id, ARRAY(`<-`, 1) AS s FROM t WHERE EXISTS (SELECT ARRAY(`<-`) AS x FROM dual)) SELECT DISTINCT * FROM c", false},
	{"WITH c AS (SELECT id, (SELECT FUSE(`<-`) FROM dual) AS s FROM t) SELECT DISTINCT * FROM c", false},
	{"WITH c AS (SELECT id FROM t), d AS (SELECT id, (SELECT `<-` AS up FROM dual) AS s FROM c) SELECT DISTINCT * FROM d", false},
	{"SELECT DISTINCT * FROM (SELECT id, (SELECT `<-` AS up FROM dual) AS s FROM t) d", false},
	// FROM rows that are arrays themselves (one more dimension)
	{"SELECT (SELECT * FROM dual) AS s FROM grid", false},
	{"SELECT DISTINCT (SELECT * FROM dual) AS s FROM grid", false},
	{"WITH c AS (SELECT (SELECT * FROM dual) AS s FROM grid) SELECT DISTINCT s FROM c", false},
	{"WITH c AS (SELECT (SELECT * FROM dual) AS s FROM grid) SELECT * FROM `distinct=>c`", false},
	{"SELECT DISTINCT * FROM grid", false},
	{"SELECT id, ONCE.fx(1, 1) AS o, ASYNC.fx(2, a) AS y, SPINASYNC.fx(3, a) FROM grid", false},
	{"SELECT s, COUNT(*) AS c FROM grid GROUP BY s HAVING COUNT(*) > 0 ORDER BY s LIMIT 1", false},
	{"SELECT * FROM grid x JOIN u y ON x.id = y.id", false},
	// join sides that are no tables of objects (rows that are arrays, unaliased): every worker of a PARALLEL join fails
	{"SELECT * FROM grid PARALLEL LEFT JOIN u ON grid.id = u.id", false},
	{"SELECT * FROM grid PARALLEL JOIN u ON grid.id = u.id", false},
	{"SELECT * FROM u PARALLEL RIGHT JOIN grid ON grid.id = u.id", false},
	{"SELECT * FROM grid PARALLEL LEFT HASH_JOIN u ON grid.id = u.id", false},
	{"SELECT * FROM grid PARALLEL LEFT JOIN grid g2 ON grid.id < g2.id", false},
	{"SELECT * FROM wide PARALLEL LEFT JOIN u ON wide.id = u.id", false},
	{"SELECT * FROM wide PARALLEL JOIN wide w2 ON wide.id = w2.id", false},
	{"SELECT id, (SELECT v FROM n WHERE v > 0) AS sub FROM grid WHERE EXISTS (SELECT v FROM n)", false},
	// run-once strategies nested in one another (each holds its own memo and lock)
	{"SELECT id, GLOBAL.fx((SELECT 1 AS i FROM dual), (SELECT ONCE.fx(2, 5) AS x FROM dual)) AS g FROM t", false},
	{"SELECT id, GLOBAL.fx((SELECT 1 AS i FROM dual), (SELECT GLOBAL.fx((SELECT 2 AS i FROM dual), (SELECT 5 AS x FROM dual)) AS x FROM dual)) AS g FROM t", false},
	{"SELECT id, ONCE.fx(1, (SELECT ONCE.fx(2, 5) AS x FROM dual)) AS g, ONCE.fid(3, (SELECT GLOBAL.fx((SELECT 4 AS i FROM dual), (SELECT a FROM `<-t`)) AS x FROM dual)) AS h FROM t", false},
	{"SELECT id, GLOBAL.fx((SELECT 1 AS i FROM dual), (SELECT ONCE.fx(2, 5) AS x, ASYNC.fx(3, 1) AS y FROM dual)) AS g FROM t WHERE ONCE.fx(4, 1) > 0", false},
	{"SELECT id, FUSE(1) FROM t", false},
	{"SELECT id, FUSE(n) FROM t", false},
	{"SELECT id, IF(1, 2) AS x, IF() AS y FROM t", false},
	{"SELECT id, CONCAT() AS x, ARRAY() AS y, SUM() AS z FROM t", false},
	{"SELECT id, `n[(99999999999999999999:1)]` AS x FROM t", false},
	{"SELECT id, `n[-99999999999]` AS x, `n[1e3]` AS y FROM t", false},
	{"SELECT id, SUBSTR(s, 1, 1000000000000000000) AS x FROM t", false},
	{"SELECT id, SUBSTR(s, 1000000000000000000, 2) AS x, SUBSTR(long, 2, 1000000000) AS y FROM t", false},
	{"SELECT id, ELEMENTAT(n, 1000000000000000000) AS x FROM t", false},
	{"SELECT id FROM t LIMIT 1000000000000000000", false},
	{"SELECT id FROM t LIMIT 1 OFFSET 1000000000000000000", false},
	{"SELECT id, `n[(0:1000000000000000000)]` AS x, `n[1000000000000000000]` AS y FROM t", false},
	{"SELECT id FROM t WHERE long LIKE '%a%a%a%a%a%a%a%a%a%a%a%a%a%a%a%a%a%a%a%a%a%a%a%a%ab'", false},
	{"SELECT id FROM t WHERE long NOT LIKE '%a%a%a%a%a%a%a%a%a%a%a%a%a%a%a%a%a%a%a%a%a%a%a%a%ab' OR s LIKE '%%%%%%%%%%%%%%%%%%%%x'", false},
	{"SELECT id, CONCAT(long, long, long, long) AS c FROM t WHERE long LIKE '%a_a_a_a_a_a_a_a_a_a_a_a_b'", false},
	{"SELECT DISTINCT (SELECT v FROM n) AS s, * FROM t", false},
	{"SELECT DISTINCT *, (SELECT ip FROM `<-meta`) AS m FROM t", false},
	{"SELECT DISTINCT id, (SELECT v, (SELECT ip FROM `<-<-meta`) AS ip FROM n) AS s, * FROM t", false},
	{"SELECT * FROM t x PARALLEL JOIN u y ON x.s", false},
	{"SELECT * FROM t x PARALLEL LEFT JOIN u y ON x.a + 1", false},
	{"SELECT * FROM t x PARALLEL HASH_JOIN u y ON x.nope = y.nope", false},
	{"", false},
	{";", false},
	{"SELECT", false},
	{"SELECT FROM", false},
	{"SELECT * FROM", false},
	{"SELECT * FROM t WHERE", false},
	{"SELECT * FROM t x JOIN u y", false},
	{"SELECT * FROM t x JOIN u y USING (id)", false},
	{"SELECT * FROM t, u", false},
	{"INSERT INTO t VALUES (1)", false},
	{"UPDATE t SET a = 1", false},
	{"DELETE FROM t", false},
	{"SELECT id FROM t LIMIT 99999999999999999999", false},
	{"SELECT id FROM t LIMIT -1", false},
	{"SELECT nosuch(1) FROM t", false},
	{"SELECT ASYNC.nosuch(1) FROM t", false},
	{"SELECT SUM(s) FROM t", false},
	{"SELECT id FROM nosuch", false},
	{"SELECT id FROM t ORDER BY nosuch", false},
	{"SELECT id FROM t GROUP BY", false},
	{"SELECT COUNT(*) FROM t GROUP BY nosuch HAVING nosuch > 1", false},
	{"SELECT AWAIT(x) AS y FROM (SELECT ASYNC.fx(1, a) AS x FROM t) d", false},
	{"SELECT (SELECT AWAIT(`q.a`) AS item FROM (SELECT ASYNC.fid(1, o) AS q FROM dual) z) AS r FROM t", false},
	{"SELECT id FROM t WHERE a IN (SELECT v, w FROM n)", false},
	{"SELECT id FROM t WHERE (SELECT v FROM n) > 1", false},
	{"SELECT * FROM (SELECT * FROM (SELECT * FROM (SELECT * FROM t) a) b) c", false},
}

// inputs for the PostgresEscapingDialect rewriter (run with that option on)
var c10NamedPostgres = []string{
	"SELECT \"dir\\name\" FROM \"t\"",
	"SELECT \"id\\\" FROM \"t\"",
	"SELECT \"id FROM t",
	"SELECT \"a\\\\b\", 'x\\'y' FROM \"t\"",
	"SELECT \"\" FROM t",
	"\"",
	"\\",
	"SELECT \"é\\é\" FROM t",
}

var c10Tokens = []string{"SELECT ", " FROM ", " WHERE ", " JOIN ", " ON ", " UNION ", " WITH ", " AS ", "(", ")", "[", "]", "{", "}", "`", "'", "\"", "<-", ".", ",", "*", "=", " NATURAL ", " PARALLEL ", " GROUP BY ", " ORDER BY ", " LIMIT ", "ASYNC.", "SPIN.", "ONCE.", "GLOBAL.", "SCOPED.", "AWAIT(", "NULL", "0", "-1", "99999999999", "\x00", "\xff", "%", ";", "--", "/*", "::", "=>", "each", "keep", "begin", "end", ":"}

var c10DialectTokens = []string{"\"", "\"id\"", "\"dir\\name\"", "\\", "\\\"", "'", "'a\\'b'", "`", "`id`", "[", "]", "[0]", "t[0]", "n[1].v", "id", "a", " ", ", ", "\"t\"", " FROM ", " AS ", "\"a b\"", "é", "\"é\\x\"", "\"\"", "''", "(", ")", ".", "\"n\"[0]", "x\\"}

var c10SelectorTokens = []string{"[", "]", "(", ")", ":", "each", "keep=>", "begin", "end", "first", "last", "0", "1", "-1", "99", "2:1", "{", "}", "|", "string", "number", "bogus",
	"'", ".", "::", "=>", "distinct=>", "mix=>", "<-", "*", " ", "id", "v", "w", "n", "tags", "grid", ",", "[0]", "[(1:end)]", "[(begin:", "[each:0]", "{v|string}", "{v|bogus, w}", "[keep=>0:1]"}

func mutateQuery(t *rapid.T, q string) string {
	n := rapid.IntRange(1, 4).Draw(t, "nmut")
	b := []byte(q)
	for i := 0; i < n; i++ {
		if len(b) == 0 {
			b = []byte(rapid.SampledFrom(c10Tokens).Draw(t, "tok"))
			continue
		}
		pos := rapid.IntRange(0, len(b)-1).Draw(t, "pos")
		switch rapid.SampledFrom([]string{"delete", "dup", "insert_token", "replace_byte", "truncate", "swap", "delete_range"}).Draw(t, "mut") {
		case "delete":
			b = append(b[:pos:pos], b[pos+1:]...)
		case "delete_range":
			end := pos + rapid.IntRange(1, 8).Draw(t, "dl")
			if end > len(b) {
				end = len(b)
			}
			b = append(b[:pos:pos], b[end:]...)
		case "dup":
			end := pos + rapid.IntRange(1, 12).Draw(t, "dupl")
			if end > len(b) {
				end = len(b)
			}
			seg := append([]byte{}, b[pos:end]...)
			b = append(b[:end:end], append(seg, b[end:]...)...)
		case "insert_token":
			tok := rapid.SampledFrom(c10Tokens).Draw(t, "tok")
			b = append(b[:pos:pos], append([]byte(tok), b[pos:]...)...)
		case "replace_byte":
			b[pos] = byte(rapid.IntRange(0, 255).Draw(t, "byte"))
		case "truncate":
			b = b[:pos]
		case "swap":
			j := rapid.IntRange(0, len(b)-1).Draw(t, "swapj")
			b[pos], b[j] = b[j], b[pos]
		}
	}
	return string(b)
}

func c10Doc(t *rapid.T) map[string]any {
	nt := rapid.IntRange(1, 4).Draw(t, "nt")
	rows := []any{}
	for i := 0; i < nt; i++ {
		nn := rapid.IntRange(0, 2).Draw(t, "nn")
		nested := []any{}
		for j := 0; j < nn; j++ {
			nested = append(nested, map[string]any{"v": float64(rapid.IntRange(0, 4).Draw(t, "v")), "w": "p"})
		}
		rows = append(rows, map[string]any{"id": float64(i + 1), "a": float64(rapid.IntRange(0, 3).Draw(t, "a") * 10), "s": rapid.SampledFrom([]string{"x", "xy"}).Draw(t, "s"),
			"f": rapid.Bool().Draw(t, "f"), "g": true, "n": nested, "o": map[string]any{"p": 1.0, "q": "k"}})
	}
	us := []any{}
	for i := 0; i < rapid.IntRange(0, 3).Draw(t, "nu"); i++ {
		us = append(us, map[string]any{"id": float64(rapid.IntRange(1, 4).Draw(t, "uid")), "b": "k", "g": rapid.Bool().Draw(t, "g")})
	}
	// grid: the same kind of rows, one dimension deeper
	grid := []any{}
	for i := 0; i < rapid.IntRange(0, 2).Draw(t, "ngrid"); i++ {
		inner := []any{}
		for j := 0; j < rapid.IntRange(0, 2).Draw(t, "ninner"); j++ {
			inner = append(inner, map[string]any{"id": float64(i*2 + j + 1), "a": float64(rapid.IntRange(0, 3).Draw(t, "ga") * 10), "s": rapid.SampledFrom([]string{"x", "xy"}).Draw(t, "gs"),
				"n": []any{map[string]any{"v": float64(j), "w": "p"}}})
		}
		grid = append(grid, inner)
	}
	return map[string]any{"t": rows, "u": us, "meta": map[string]any{"ip": "10.0.0.1"}, "grid": grid}
}

// oddValue draws a JSON-like value of arbitrary shape.
func oddValue(t *rapid.T, depth int) any {
	kinds := []string{"null", "num", "str", "bool", "arr", "obj", "empty_arr", "empty_obj"}
	if depth >= 3 {
		kinds = kinds[:4]
	}
	switch rapid.SampledFrom(kinds).Draw(t, "odd_kind") {
	case "num":
		return rapid.SampledFrom([]float64{0, 1, -1, 1.5, 1e18, -0.0}).Draw(t, "odd_num")
	case "str":
		return rapid.SampledFrom([]string{"", "x", "<-", "a.b", "[0]", "{}", "*", "`", "1"}).Draw(t, "odd_str")
	case "bool":
		return rapid.Bool().Draw(t, "odd_bool")
	case "arr":
		n := rapid.IntRange(1, 3).Draw(t, "odd_n")
		out := []any{}
		for i := 0; i < n; i++ {
			out = append(out, oddValue(t, depth+1))
		}
		return out
	case "obj":
		n := rapid.IntRange(1, 3).Draw(t, "odd_n")
		out := map[string]any{}
		for i := 0; i < n; i++ {
			k := rapid.SampledFrom([]string{"id", "a", "s", "n", "v", "o", "<-", "", "*", "t", "a.b", "x y"}).Draw(t, "odd_key")
			out[k] = oddValue(t, depth+1)
		}
		return out
	case "empty_arr":
		return []any{}
	case "empty_obj":
		return map[string]any{}
	}
	return nil
}

var c10Builtins = []string{"SUM", "AVG", "MIN", "MAX", "COUNT", "CONCAT", "FIRST", "LAST", "ELEMENTAT", "DEFAULTKEY", "CHANGETYPE", "UNWIND", "IF", "FUSE", "DATERANGE",
	"CONSTANT", "GETVAR", "SETVAR", "RAISE_WHEN", "RAISE", "REPORT_WHEN", "REPORT", "HASH", "ENCODE", "DECODE", "TIMESTAMP", "ARRAY", "TO_LOWER", "TO_UPPER", "SUBSTR"}

var c10BuiltinArgs = []string{"NULL", "1", "-1", "1.5", "0", "'x'", "''", "'unit'", "'base64'", "'sha1'", "'double'", "TRUE", "FALSE", "a", "s", "f", "n", "o", "id", "nosuch", "`n[0]`", "`n[0].v`", "`o.p`", "*",
	"(SELECT v FROM n)", "(SELECT * FROM dual)", "ARRAY(1, 2)", "ARRAY()", "(1, 2)", "a / 0", "99999999999999999999", "`<-`", "ARRAY(ARRAY(1), n)", "FUSE(o)", "SETVAR('k', 1)", "COUNT(*)"}

// c10FollowUps: a second query issued by the same caller in the same process
// after the first returned. It must return too: a lock left held or a poisoned
// cache entry by a failed first query shows up here.
var c10FollowUps = []string{"SELECT id FROM t", "SELECT id, (SELECT v FROM n) AS sub FROM t", "SELECT * FROM t x JOIN u y ON x.id = y.id", "SELECT `n[0].v` AS v0 FROM t"}

func c10FollowUp(t *rapid.T) casefmt.Op {
	q := c10FollowUps[0]
	if t != nil {
		q = rapid.SampledFrom(c10FollowUps).Draw(t, "follow_up")
	}
	return casefmt.Op{Doc: 0, Vars: -1, Query: q}
}

func genC10(t *rapid.T) *Bundle {
	kind := rapid.SampledFrom([]string{"fault", "fault", "fault", "pjoin", "mutated", "mutated", "bytes", "odd_doc", "options", "selector", "selector", "dialect", "builtin", "builtin"}).Draw(t, "kind")
	sim := drawSim(t, "")
	exp := c10Expect{Kind: kind}
	doc := c10Doc(t)
	op := casefmt.Op{Doc: 0, Vars: -1}
	var stubs casefmt.StubPlan
	tags := []string{"kind:" + kind}
	switch kind {
	case "fault":
		op.Wrapped = rapid.IntRange(0, 3).Draw(t, "wrapped") == 0
		root := ""
		if op.Wrapped {
			root = "root."
		}
		fq := genFaultQueryRisky(t, root, true, true)
		doc = faultDoc(t)
		op.Query = fq.Query
		all := append(append([]int{}, fq.Sites...), fq.Async...)
		nf := rapid.IntRange(1, 2).Draw(t, "nfaults")
		for i := 0; i < nf; i++ {
			f := casefmt.Fault{ID: rapid.SampledFrom(all).Draw(t, "fault_site"), K: rapid.IntRange(1, 6).Draw(t, "fault_k"),
				Kind: rapid.SampledFrom([]string{"error", "panic", "panic_str"}).Draw(t, "fault_kind")}
			stubs.Faults = append(stubs.Faults, f)
			isAsync := false
			for _, a := range fq.Async {
				if a == f.ID {
					isAsync = true
				}
			}
			if isAsync {
				tags = append(tags, "fault_in_background_call")
			}
			tags = append(tags, "fault:"+f.Kind)
		}
		stubs.Lat = drawLatencies(t, all, 6)
		tags = append(tags, "shape:"+fq.Shape)
		// most callers install no UnReportedErrors handler
		op.NoHandlers = rapid.Bool().Draw(t, "no_handlers")
		if !op.NoHandlers && rapid.IntRange(0, 2).Draw(t, "handler_panics") == 0 {
			// ... and a handler is the caller's code, run on a goroutine the library started: it may panic
			op.HandlerPanics = true
			tags = append(tags, "handler_panics")
		}
	case "pjoin":
		jt := rapid.SampledFrom([]string{"PARALLEL JOIN", "PARALLEL LEFT JOIN", "PARALLEL RIGHT JOIN", "PARALLEL STRAIGHT_JOIN", "PARALLEL HASH_JOIN", "PARALLEL LEFT HASH_JOIN", "JOIN", "LEFT JOIN"}).Draw(t, "jt")
		on := rapid.SampledFrom([]string{"x.f AND y.g", "x.id = y.id AND x.f", "x.a + 1 > y.id", "x.id < y.id OR x.f", "x.s = y.b", "x.id = y.id", "x.o = y.id", "x.n = y.id", "x.id >= y.id AND fid(1, x.a) > 0", "x.f", "x.id = y.id AND SETVAR('k', 1)", "x.id < y.id AND SETVAR('k', x.id)",
			"x.id <= y.id AND ONCE.fid(1, TRUE)", "x.id != y.id AND ONCE.fid(1, x.f)", "x.id >= y.id AND fid(1, TRUE)", "x.id < y.id AND ASYNC.fid(1, TRUE)"}).Draw(t, "on")
		op.Query = fmt.Sprintf("SELECT * FROM t x %s u y ON %s", jt, on)
		// corrupt one row so that ON hits a type error on that row only
		rows := doc["t"].([]any)
		if len(rows) > 0 && rapid.Bool().Draw(t, "corrupt") {
			j := rapid.IntRange(0, len(rows)-1).Draw(t, "bad_row")
			col := rapid.SampledFrom([]string{"f", "a", "id"}).Draw(t, "bad_col")
			rows[j].(map[string]any)[col] = rapid.SampledFrom([]any{"oops", map[string]any{"not": "scalar"}, nil, []any{1.0}}).Draw(t, "bad_val")
		}
		if strings.Contains(on, "fid(") {
			stubs.Faults = []casefmt.Fault{{ID: 1, K: rapid.IntRange(1, 4).Draw(t, "fk"), Kind: rapid.SampledFrom([]string{"error", "panic", "panic_str"}).Draw(t, "fkind")}}
			// a slow call keeps its siblings waiting while it fails
			stubs.Lat = []casefmt.LatRule{{ID: 1, Call: -1, Ns: rapid.SampledFrom(latencyChoices).Draw(t, "flat")}}
		}
		exp.Race = strings.HasPrefix(jt, "PARALLEL")
		// fresh column names make the selector cache cold for the workers
		if rapid.Bool().Draw(t, "fresh_names") {
			suffix := fmt.Sprintf("_%d", rapid.IntRange(0, 999).Draw(t, "fresh"))
			for _, r := range rows {
				m := r.(map[string]any)
				m["id"+suffix] = m["id"]
			}
			for _, r := range doc["u"].([]any) {
				m := r.(map[string]any)
				m["id"+suffix] = m["id"]
			}
			op.Query = strings.ReplaceAll(op.Query, "x.id", "x.id"+suffix)
			op.Query = strings.ReplaceAll(op.Query, "y.id", "y.id"+suffix)
		}
	case "builtin":
		// every built-in, under every qualifier, with any number of arguments of any kind, in any clause
		fn := rapid.SampledFrom(c10Builtins).Draw(t, "builtin")
		qual := rapid.SampledFrom([]string{"", "", "", "ASYNC.", "SPIN.", "SPINASYNC.", "ONCE.", "SCOPED.", "GLOBAL.", "AWAIT:"}).Draw(t, "bqual")
		var args []string
		for i := 0; i < rapid.IntRange(0, 4).Draw(t, "bnargs"); i++ {
			args = append(args, rapid.SampledFrom(c10BuiltinArgs).Draw(t, "barg"))
		}
		call := fmt.Sprintf("%s%s(%s)", qual, fn, strings.Join(args, ", "))
		if qual == "AWAIT:" {
			call = fmt.Sprintf("AWAIT(%s(%s))", fn, strings.Join(args, ", "))
		}
		src := rapid.SampledFrom([]string{"t", "t", "dual", "grid", "(SELECT * FROM t) d"}).Draw(t, "bsrc")
		switch rapid.SampledFrom([]string{"select", "select", "where", "having", "subquery", "arg", "order_group"}).Draw(t, "bplace") {
		case "select":
			op.Query = fmt.Sprintf("SELECT id, %s AS x FROM %s", call, src)
		case "where":
			op.Query = fmt.Sprintf("SELECT id FROM %s WHERE %s", src, call)
		case "having":
			op.Query = fmt.Sprintf("SELECT s, COUNT(*) AS c FROM %s GROUP BY s HAVING %s", src, call)
		case "subquery":
			op.Query = fmt.Sprintf("SELECT id, (SELECT %s AS y FROM n) AS sub FROM %s WHERE EXISTS (SELECT %s FROM n)", call, src, call)
		case "arg":
			op.Query = fmt.Sprintf("SELECT id, CONCAT(%s, 1) AS x, IF(%s, 1, 2) AS y FROM %s", call, call, src)
		case "order_group":
			op.Query = fmt.Sprintf("SELECT s, %s AS x FROM %s GROUP BY s ORDER BY s", call, src)
		}
		op.Vars = rapid.SampledFrom([]int{-1, 0}).Draw(t, "bvars")
		if rapid.Bool().Draw(t, "bconst") {
			op.Constants = map[string]any{"unit": "ms", "x": nil, "1": 1.0}
		}
		op.NoHandlers = rapid.Bool().Draw(t, "no_handlers")
	case "dialect":
		// texts for the query-text rewriters (PostgresEscapingDialect, IdiomaticArrays): quotes, escapes, brackets
		n := rapid.IntRange(1, 10).Draw(t, "ndtok")
		var sb strings.Builder
		for i := 0; i < n; i++ {
			sb.WriteString(rapid.SampledFrom(c10DialectTokens).Draw(t, "dtok"))
		}
		op.Query = sb.String()
		if rapid.Bool().Draw(t, "dialect_in_select") {
			op.Query = "SELECT " + op.Query + " FROM t"
		}
		op.Postgres = rapid.IntRange(0, 3).Draw(t, "postgres") > 0
		op.Idiomatic = rapid.Bool().Draw(t, "idiomatic")
	case "selector":
		// well-formed and malformed texts of the selector language, as a column and as a FROM path
		n := rapid.IntRange(1, 7).Draw(t, "nseltok")
		var sb strings.Builder
		for i := 0; i < n; i++ {
			sb.WriteString(rapid.SampledFrom(c10SelectorTokens).Draw(t, "seltok"))
		}
		sel := sb.String()
		if rapid.Bool().Draw(t, "sel_valid_prefix") {
			sel = rapid.SampledFrom([]string{"tags", "n", "grid", "t", "o"}).Draw(t, "selbase") + sel
		}
		switch rapid.IntRange(0, 2).Draw(t, "sel_place") {
		case 0:
			op.Query = fmt.Sprintf("SELECT id FROM `%s`", sel)
		case 1:
			op.Query = fmt.Sprintf("SELECT id, `%s` AS c FROM t", sel)
		default:
			// the selector language has an entry point of its own: ExecReader(document, selector)
			op.Query, op.Reader = "t"+sel, true
			if rapid.Bool().Draw(t, "sel_reader_raw") {
				op.Query = sel
			}
		}
		for _, r := range doc["t"].([]any) {
			m := r.(map[string]any)
			m["tags"] = []any{"x", "x", "y"}
			m["grid"] = []any{[]any{1.0, 2.0}, []any{3.0}}
		}
	case "mutated":
		base := rapid.SampledFrom(c10BaseQueries).Draw(t, "base")
		op.Query = mutateQuery(t, base)
		op.Idiomatic = rapid.Bool().Draw(t, "idiomatic")
		op.Postgres = rapid.Bool().Draw(t, "postgres")
		op.Wrapped = rapid.IntRange(0, 3).Draw(t, "wrapped") == 0
		stubs.Lat = drawLatencies(t, []int{1, 2}, 4)
	case "bytes":
		n := rapid.IntRange(0, 40).Draw(t, "nbytes")
		b := make([]byte, n)
		for i := range b {
			if rapid.IntRange(0, 3).Draw(t, "tokish") == 0 {
				tok := rapid.SampledFrom(c10Tokens).Draw(t, "tok")
				b = append(b[:i:i], tok...)
				break
			}
			b[i] = byte(rapid.IntRange(0, 255).Draw(t, "byte"))
		}
		op.Query = string(b)
		op.Idiomatic = rapid.Bool().Draw(t, "idiomatic")
		op.Postgres = rapid.Bool().Draw(t, "postgres")
		op.Wrapped = rapid.Bool().Draw(t, "wrapped")
	case "odd_doc":
		d := map[string]any{}
		for _, k := range []string{"t", "u", "meta"} {
			d[k] = oddValue(t, 0)
		}
		doc = d
		op.Query = rapid.SampledFrom(c10BaseQueries).Draw(t, "base")
		op.Idiomatic = rapid.Bool().Draw(t, "idiomatic")
	case "options":
		base := rapid.SampledFrom(c10BaseQueries).Draw(t, "base")
		op.Query = base
		op.Idiomatic = rapid.Bool().Draw(t, "idiomatic")
		op.Postgres = rapid.Bool().Draw(t, "postgres")
		op.Wrapped = rapid.Bool().Draw(t, "wrapped")
		if op.Postgres {
			op.Query = strings.ReplaceAll(op.Query, "`", "\"")
		}
		if op.Wrapped && rapid.Bool().Draw(t, "rooted") {
			op.Query = strings.ReplaceAll(strings.ReplaceAll(op.Query, "FROM t", "FROM root.t"), "JOIN u", "JOIN root.u")
		}
		stubs.Lat = drawLatencies(t, []int{1, 2}, 4)
	}
	exp.Query = op.Query
	// calling Exec again on the same Query is ordinary API use
	op.ExecTwice = rapid.IntRange(0, 2).Draw(t, "exec_twice") == 0
	c := oneClientCase("C10", sim, doc, op, c10FollowUp(t))
	c.Stubs = stubs
	c.Sim.StepBudget = 2000000
	c.TypedTables = rapid.IntRange(0, 4).Draw(t, "typed_tables") == 0
	c.NativeInts = rapid.IntRange(0, 3).Draw(t, "native_ints") == 0
	if op.Vars >= 0 {
		c.Vars = []map[string]any{{}}
	}
	return &Bundle{Prop: "C10", Kind: kind, Case: c, Expect: mustJSON(exp), Tags: tags}
}

func evalC10(b *Bundle, r *Runner) []*Violation {
	var exp c10Expect
	if err := json.Unmarshal(b.Expect, &exp); err != nil {
		infra("C10: bad expectation: %v", err)
	}
	o := r.Run(&b.Case, exp.Race)
	vs := processHealth(b, o)
	for i := range vs {
		vs[i].Detail = fmt.Sprintf("query %q (wrapped=%v postgres=%v idiomatic=%v)\n%s", exp.Query, b.Case.Clients[0].Ops[0].Wrapped, b.Case.Clients[0].Ops[0].Postgres, b.Case.Clients[0].Ops[0].Idiomatic, vs[i].Detail)
	}
	if exp.Race {
		for i, sig := range o.Races {
			txt := o.RaceTexts[i]
			if strings.Contains(txt, "runtime.map") {
				vs = append(vs, mkViolation(b, "CONCURRENT_MAP_ACCESS", raceFuncSig(sig), fmt.Sprintf("query %q: unsynchronised map access between library goroutines (the runtime aborts the process with 'fatal error: concurrent map read and map write' when these collide)\n%s\n%s", exp.Query, sig, txt), o))
			} else {
				r.Stats.probe("non_map_race_left_to_C13")
			}
		}
	}
	if len(vs) > 0 {
		return vs
	}
	if len(o.Ops) != len(b.Case.Clients[0].Ops) {
		infra("C10: expected %d op observations, got %d", len(b.Case.Clients[0].Ops), len(o.Ops))
	}
	for i := range o.Ops {
		if !o.Ops[i].Returned {
			return []*Violation{mkViolation(b, "NO_RETURN", "", fmt.Sprintf("query %q (op %d of the case starting with %q): New/Exec did not return although the run terminated", b.Case.Clients[0].Ops[i].Query, i, exp.Query), o)}
		}
	}
	op := &o.Ops[0]
	r.Stats.probe("outcome_" + opOutcome(op))
	for _, c := range o.Calls {
		if c.Faulted != "" {
			r.Stats.probe("fault_fired_" + c.Faulted)
			if c.Task > 0 {
				r.Stats.probe("fault_fired_on_background_task")
			}
		}
	}
	if b.hasTag("fault_in_background_call") {
		r.Stats.probe("cases_with_fault_planned_in_background_call")
	}
	return nil
}

func corpusC10() []*Bundle {
	doc := map[string]any{
		"t": []any{
			map[string]any{"id": 1.0, "a": 10.0, "s": "x", "f": true, "n": []any{map[string]any{"v": 1.0, "w": "p"}, map[string]any{"v": 3.0, "w": "q"}}, "o": map[string]any{"p": 1.0, "q": "k"}},
			map[string]any{"id": 2.0, "a": 20.0, "s": "xy", "f": false, "n": []any{}, "o": map[string]any{"p": 2.0, "q": "m"}},
			map[string]any{"id": 3.0, "a": 10.0, "s": "z", "f": true, "n": []any{map[string]any{"v": 0.0, "w": "p"}}, "o": map[string]any{"p": 3.0, "q": "k"}, "long": strings.Repeat("a", 60)},
		},
		"u":    []any{map[string]any{"id": 1.0, "b": "k", "g": true}, map[string]any{"id": 3.0, "b": "m", "g": false}},
		"meta": map[string]any{"ip": "10.0.0.1"},
		"grid": []any{
			[]any{map[string]any{"id": 1.0, "a": 10.0, "s": "x", "n": []any{map[string]any{"v": 1.0, "w": "p"}}}, map[string]any{"id": 2.0, "a": 20.0, "s": "xy", "n": []any{}}},
			[]any{map[string]any{"id": 3.0, "a": 10.0, "s": "x", "n": []any{map[string]any{"v": 0.0, "w": "q"}}}},
			[]any{},
		},
	}
	wideRows := []any{}
	for i := 0; i < 24; i++ {
		wideRows = append(wideRows, []any{map[string]any{"id": float64(i + 1), "a": float64(i)}})
	}
	doc["wide"] = wideRows
	var out []*Bundle
	for _, nc := range c10Named {
		for _, wrapped := range []bool{false, true} {
			q := nc.q
			c := oneClientCase("C10", casefmt.SimConfig{Strategy: "walk", Seed: 2, WalkP: 0.3, MapPolicy: "sorted", StepBudget: 2000000}, doc,
				casefmt.Op{Doc: 0, Vars: -1, Query: q, Idiomatic: nc.idiomatic, Wrapped: wrapped, ExecTwice: true}, c10FollowUp(nil))
			out = append(out, &Bundle{Prop: "C10", Kind: "named", Case: c, Expect: mustJSON(c10Expect{Kind: "named", Query: q}), Tags: []string{"corpus", "kind:named"}})
			if strings.Contains(q, "ONCE.f") && !wrapped {
				// the single call all workers share fails (slowly) while its siblings wait for it
				for _, fk := range []string{"error", "panic", "panic_str"} {
					for _, strat := range []string{"walk", "sync", "pct"} {
						fc := c
						fc.Sim.Strategy, fc.Sim.ChangePoints = strat, []int64{3, 40}
						fc.Stubs.Faults = []casefmt.Fault{{ID: 1, K: 1, Kind: fk}}
						fc.Stubs.Lat = []casefmt.LatRule{{ID: 1, Call: -1, Ns: 1000000}}
						out = append(out, &Bundle{Prop: "C10", Kind: "named", Case: fc, Expect: mustJSON(c10Expect{Kind: "named", Query: q, Race: true}), Tags: []string{"corpus", "kind:named", "fault:" + fk}})
					}
				}
			}
		}
	}
	for _, sel := range []string{"t[5]", "t[0 0]", "t[(2:1)]", "t[(0:9)]", "[3]", "u[0,1]", "t[-1]", "t[(begin:9)]", "t[each][each]", "t.n[7].v", "t[0:9]", "t[1:0]", "", "[", "t[", "t{", "::", "t::[9]", "nosuch=>t", "keep=>t[9]"} {
		c := oneClientCase("C10", casefmt.SimConfig{Strategy: "np", Seed: 2, MapPolicy: "sorted", StepBudget: 2000000}, doc,
			casefmt.Op{Doc: 0, Vars: -1, Query: sel, Reader: true}, c10FollowUp(nil))
		out = append(out, &Bundle{Prop: "C10", Kind: "named", Case: c, Expect: mustJSON(c10Expect{Kind: "named", Query: "ExecReader: " + sel}), Tags: []string{"corpus", "kind:named_reader"}})
	}
	for _, q := range c10NamedPostgres {
		c := oneClientCase("C10", casefmt.SimConfig{Strategy: "np", Seed: 2, MapPolicy: "sorted", StepBudget: 2000000}, doc,
			casefmt.Op{Doc: 0, Vars: -1, Query: q, Postgres: true}, c10FollowUp(nil))
		out = append(out, &Bundle{Prop: "C10", Kind: "named", Case: c, Expect: mustJSON(c10Expect{Kind: "named", Query: q}), Tags: []string{"corpus", "kind:named_postgres"}})
	}
	// every worker of a PARALLEL join fails (ON is not boolean for any key): several failures land at the same time
	for _, jt := range []string{"PARALLEL JOIN", "PARALLEL LEFT JOIN", "PARALLEL RIGHT JOIN", "PARALLEL STRAIGHT_JOIN"} {
		for _, on := range []string{"x.id <= y.id AND x.s", "x.id = y.id AND x.s", "x.id != y.id AND fid(1, TRUE)"} {
			for si, strat := range []string{"walk", "sync", "pct", "walk", "sync", "pct"} {
				q := fmt.Sprintf("SELECT * FROM t x %s u y ON %s", jt, on)
				c := oneClientCase("C10", casefmt.SimConfig{Strategy: strat, Seed: uint64(11 + 7*si), WalkP: 0.5, MapPolicy: []string{"sorted", "reverse", "rotate"}[si%3], ChangePoints: []int64{int64(2 + si), int64(30 + 9*si)}, StepBudget: 2000000}, doc,
					casefmt.Op{Doc: 0, Vars: -1, Query: q}, c10FollowUp(nil))
				if strings.Contains(on, "fid(") {
					c.Stubs.Faults = []casefmt.Fault{{ID: 1, K: 1, Kind: "error"}, {ID: 1, K: 2, Kind: "panic"}, {ID: 1, K: 3, Kind: "error"}}
					if si >= 3 {
						// the workers fail in different ways: a returned error, a panic with a string, a panic with an error
						// (failures of different Go types arrive at whatever collects them)
						c.Stubs.Faults = []casefmt.Fault{{ID: 1, K: 1, Kind: "error"}, {ID: 1, K: 2, Kind: "panic_str"}, {ID: 1, K: 3, Kind: "panic"}}
					}
					c.Stubs.Lat = []casefmt.LatRule{{ID: 1, Call: -1, Ns: 1000000}}
				}
				out = append(out, &Bundle{Prop: "C10", Kind: "named", Case: c, Expect: mustJSON(c10Expect{Kind: "named", Query: q, Race: true}), Tags: []string{"corpus", "kind:named_pjoin_all_fail"}})
			}
		}
	}
	// background work that fails or panics on some row, per strategy and placement
	strategies := []string{"ASYNC", "SPIN", "SPINASYNC"}
	places := []string{"SELECT id, %s.fx(1, a)%s FROM t", "SELECT * FROM (SELECT id, %s.fx(1, a)%s FROM t) d", "WITH c AS (SELECT id, %s.fx(1, a)%s FROM t) SELECT * FROM c",
		"SELECT id, (SELECT %s.fx(1, v)%s FROM n) AS sub FROM t", "SELECT id FROM t WHERE EXISTS (SELECT %s.fx(1, v)%s FROM n)"}
	for _, st := range strategies {
		for _, pl := range places {
			for _, fk := range []string{"error", "panic", "panic_str"} {
				alias := ""
				if st == "ASYNC" {
					alias = " AS y"
				}
				q := fmt.Sprintf(pl, st, alias)
				c := oneClientCase("C10", casefmt.SimConfig{Strategy: "walk", Seed: 4, WalkP: 0.3, MapPolicy: "sorted", StepBudget: 2000000}, doc, casefmt.Op{Doc: 0, Vars: -1, Query: q}, c10FollowUp(nil))
				c.Stubs.Faults = []casefmt.Fault{{ID: 1, K: 2, Kind: fk}}
				c.Stubs.Lat = []casefmt.LatRule{{ID: 1, Call: -1, Ns: 1000000}}
				c.Clients[0].Ops[0].NoHandlers = fk != "panic_str"
				c.Clients[0].Ops[0].HandlerPanics = fk == "panic_str" && pl == places[0]
				out = append(out, &Bundle{Prop: "C10", Kind: "bg_fault", Case: c, Expect: mustJSON(c10Expect{Kind: "bg_fault", Query: q}), Tags: []string{"corpus", "kind:bg_fault", "fault:" + fk, "strategy:" + st, "fault_in_background_call"}})
			}
		}
	}
	return out
}

func init() {
	register(&Property{
		ID: "C10", Race: true, Plain: true, Level: "exploration",
		Rule:   "cases = rapid-generated: (fault) grammar queries with 1-2 stub faults (error / panic(error) / panic(string)) at a drawn invocation index of a drawn call site, sites in select list, WHERE, CASE, function argument, subquery, EXISTS, IN-subquery, derived table, CTE, union branch, HAVING and as ASYNC/SPIN/SPINASYNC background calls, with drawn latencies and np/walk/pct schedules; (pjoin) PARALLEL and sequential joins whose ON hits a type error or a failing/panicking stub on a drawn row, with cold selector names, run in a -race child; (mutated) 30 base queries under 1-4 byte/token mutations; (bytes) arbitrary byte strings; (odd_doc) documents of arbitrary JSON shape; (options) all 2^3 option sets; plus a fixed corpus of the statement's named cases and of failing background work per strategy x placement x fault kind; oracle = control returned and no PANIC_ESCAPED / BG_PANIC / DEADLOCK / STEP_BUDGET / FATAL / unsynchronised map access; non-trivial = >=2 tasks runnable at some yield, or a fault fired, or non-identity map order; distinct = distinct case-file hash; plus every built-in under every qualifier with 0-4 arbitrary arguments, the `<-` marker read as a value and array-of-arrays sources under DISTINCT, nested run-once strategies, selectors through ExecReader, PARALLEL joins whose sides hold arrays, Go-typed inputs; UnReportedErrors handlers that panic, PARALLEL workers failing in different ways at once",
		Corpus: corpusC10, Gen: genC10, Eval: evalC10, QuickChecks: 1500,
		Assumptions: []string{
			"the input-space quantifier (all byte strings, all documents) is only sampled; the simulator decides the schedule x fault part",
			"a panic that unwinds a library goroutine is recorded as BG_PANIC (it would kill the process); the simulator then lets the run continue so that a skipped wg.Done surfaces as DEADLOCK",
			"step budget 2e6 yields stands for 'loops forever' (typical runs are 1e3-1e5 yields)",
			"stack limit 64 MiB stands for the default 1 GiB: a query recursing past it is reported as a stack overflow",
		},
		Components: map[string][]string{
			"real": {"genql (instrumented copy of /repo working tree)", "sqlparser", "sanitizer", "compare", "Go runtime", "ThreadSanitizer (pjoin cases)"},
			"stub": {"user functions fx/fid", "goroutine scheduler (zzsim)", "clock (zzsim)", "blocking of sync primitives (modelled)"},
		},
	})
}
