package main

import (
	"fmt"
	"strings"

	"pgregory.net/rapid"
)

// Shared generator of queries that carry fault-injection sites: calls of the
// identity stub fid(K, expr) placed in clause positions. Used by C19 (fault
// enumeration over every invocation index) and C11 (input integrity at every
// crash point).

type faultQuery struct {
	Query     string   `json:"query"`
	Sites     []int    `json:"sites"`
	OrderOpen bool     `json:"order_open"`
	Shape     string   `json:"shape"`
	Positions []string `json:"positions"` // clause position of each site (parallel to Sites)
	Async     []int    `json:"async,omitempty"`
}

type fqBuilder struct {
	t       *rapid.T
	site    int
	sites   []int
	pos     []string
	root    string // "" or "root." (Wrapped)
	asyncOK bool   // may add ASYNC/SPIN/SPINASYNC fx items (sites recorded in async)
	async   []int
	// riskyArgs: background calls may get argument expressions that fail on some rows
	riskyArgs bool
	usedOnce  bool
}

func (b *fqBuilder) next(position string) int {
	b.site++
	b.sites = append(b.sites, b.site)
	b.pos = append(b.pos, position)
	return b.site
}

// faultDoc draws the document all fault queries run on.
func faultDoc(t *rapid.T) map[string]any {
	nt := rapid.IntRange(1, 5).Draw(t, "nt")
	rows := []any{}
	for i := 0; i < nt; i++ {
		nn := rapid.IntRange(0, 3).Draw(t, "nn")
		nested := []any{}
		for j := 0; j < nn; j++ {
			nested = append(nested, map[string]any{"v": float64(rapid.IntRange(0, 4).Draw(t, "v")), "w": rapid.SampledFrom([]string{"p", "q"}).Draw(t, "w")})
		}
		ntags := rapid.IntRange(0, 4).Draw(t, "ntags")
		tags := []any{}
		for j := 0; j < ntags; j++ {
			tags = append(tags, rapid.SampledFrom([]string{"x", "y", "z"}).Draw(t, "tag"))
		}
		grid := []any{}
		for j := 0; j < rapid.IntRange(1, 2).Draw(t, "ngrid"); j++ {
			grid = append(grid, []any{float64(rapid.IntRange(0, 3).Draw(t, "g0")), float64(rapid.IntRange(0, 3).Draw(t, "g1"))})
		}
		rows = append(rows, map[string]any{
			"id":     float64(i + 1),
			"a":      float64(rapid.IntRange(0, 4).Draw(t, "a") * 10),
			"s":      rapid.SampledFrom([]string{"x", "xy", "z"}).Draw(t, "s"),
			"f":      rapid.Bool().Draw(t, "f"),
			"n":      nested,
			"tags":   tags,
			"grid":   grid,
			"o":      map[string]any{"p": float64(rapid.IntRange(1, 3).Draw(t, "op")), "q": rapid.SampledFrom([]string{"k", "m"}).Draw(t, "oq"), "b": rapid.Bool().Draw(t, "ob")},
			"scores": []any{fmt.Sprint(rapid.IntRange(1, 9).Draw(t, "sc0")), fmt.Sprint(rapid.IntRange(1, 9).Draw(t, "sc1")), rapid.SampledFrom([]string{"3", "n/a"}).Draw(t, "sc2")},
			"nums":   []any{float64(rapid.IntRange(1, 9).Draw(t, "nm0")) + 0.5, float64(rapid.IntRange(1, 9).Draw(t, "nm1"))},
		})
	}
	nu := rapid.IntRange(0, 3).Draw(t, "nu")
	us := []any{}
	for i := 0; i < nu; i++ {
		us = append(us, map[string]any{"id": float64(rapid.IntRange(1, 4).Draw(t, "uid")), "b": rapid.SampledFrom([]string{"k", "m"}).Draw(t, "b"), "g": rapid.Bool().Draw(t, "g")})
	}
	dups := []any{}
	for i := 0; i < rapid.IntRange(0, 5).Draw(t, "ndups"); i++ {
		dups = append(dups, float64(rapid.IntRange(1, 3).Draw(t, "dup")))
	}
	objs := []any{}
	for i := 0; i < rapid.IntRange(0, 4).Draw(t, "nobjs"); i++ {
		objs = append(objs, map[string]any{"k": float64(rapid.IntRange(1, 2).Draw(t, "objk"))})
	}
	// deep: the rows of t once more, one dimension deeper (FROM over an array of arrays)
	deep := []any{}
	for i := 0; i < len(rows); i += 2 {
		end := i + 2
		if end > len(rows) {
			end = len(rows)
		}
		deep = append(deep, append([]any{}, rows[i:end]...))
	}
	return map[string]any{"t": rows, "u": us, "meta": map[string]any{"ip": "10.0.0.1"}, "dups": dups, "objs": objs, "deep": deep}
}

// selectorColumns are select-list items written in the selector language
// (slices with open bounds, indexes, each, reshape, top-level functions).
var selectorColumns = []string{
	"`distinct=>tags` AS dt", "`tags[(1:end)]` AS sl1", "`tags[(begin:2)]` AS sl2", "`tags[(0:1)]` AS sl3", "`tags[0]` AS t0",
	"`grid[each:0]` AS g0", "`grid[0]` AS gr0", "`n{v|string, w}` AS rs", "`n[0].v` AS v0", "`mix=>n[each].v` AS mx", "`n[(0:end)].w` AS ws",
	"`distinct=>n[each].w` AS dw", "`grid[(0:end)]::[0]` AS cont",
	"`grid[each (0:1)]` AS ge1", "`grid[each (begin:1)]` AS ge2", "`grid[each (1:2)]` AS ge3", "`grid[each each]` AS ge4", "`n[each].v` AS nv",
}

// exprCtx is an expression that has the fault site as an operand: whatever
// operator, predicate, CASE arm or built-in function a failing call sits under
// has to hand the failure on. %F% is the stub call, %P% the column prefix,
// %A% the id of a background call whose argument the stub is.
type exprCtx struct {
	name, tpl, arg string // arg: kind of column handed to the stub (num | str | bool)
	boolean        bool   // usable as a WHERE / HAVING predicate
}

var exprContexts = []exprCtx{
	{"add_l", "%F% + 1", "num", false}, {"add_r", "1 + %F%", "num", false}, {"sub", "%F% - 1", "num", false}, {"mul", "2 * %F%", "num", false},
	{"fdiv", "%F% / 4", "num", false}, {"div", "%F% DIV 3", "num", false}, {"mod", "%F% % 7", "num", false}, {"neg", "-%F%", "num", false},
	{"tilde", "~%F%", "num", false}, {"bitand", "%F% & 3", "num", false}, {"bitor", "%F% | 1", "num", false}, {"bitxor", "%F% ^ 1", "num", false},
	{"shl", "%F% << 1", "num", false}, {"shr", "%F% >> 1", "num", false}, {"paren", "(%F% + 1) * 2", "num", false},
	{"cmp_l", "%F% >= 15", "num", true}, {"cmp_r", "15 <= %F%", "num", true}, {"eq", "%F% = 10", "num", true}, {"ne", "%F% != 10", "num", true},
	{"between_pt", "%F% BETWEEN 0 AND 15", "num", true}, {"between_lo", "15 BETWEEN %F% AND 100", "num", true}, {"between_hi", "15 BETWEEN 0 AND %F%", "num", true},
	{"not_between", "%F% NOT BETWEEN 0 AND 15", "num", true}, {"in_l", "%F% IN (10, 30)", "num", true}, {"in_elem", "10 IN (%F%, 30)", "num", true},
	{"not_in", "%F% NOT IN (10)", "num", true}, {"not_in_elem", "10 NOT IN (30, %F%)", "num", true}, {"is_null", "%F% IS NULL", "num", true}, {"is_not_null", "%F% IS NOT NULL", "num", true},
	{"not", "NOT (%F% > 15)", "num", true}, {"bang", "!%F%", "bool", true}, {"is_true", "%F% IS TRUE", "bool", true}, {"is_false", "%F% IS FALSE", "bool", true},
	{"and_l", "%F% > 15 AND TRUE", "num", true}, {"and_r", "TRUE AND %F% > 15", "num", true}, {"or_l", "%F% > 15 OR FALSE", "num", true}, {"or_r", "FALSE OR %F% > 15", "num", true},
	{"like", "%F% LIKE 'x%'", "str", true}, {"not_like", "%F% NOT LIKE 'xy'", "str", true}, {"like_pattern", "%P%s LIKE %F%", "str", true},
	{"case_cond", "CASE WHEN %F% > 15 THEN 1 ELSE 0 END", "num", false}, {"case_then", "CASE WHEN TRUE THEN %F% END", "num", false},
	{"case_else", "CASE WHEN FALSE THEN 1 ELSE %F% END", "num", false}, {"case_second_when", "CASE WHEN FALSE THEN 1 WHEN %F% > 15 THEN 2 ELSE 3 END", "num", false},
	{"if_cond", "IF(%F% > 15, 1, 0)", "num", false}, {"if_then", "IF(TRUE, %F%, 0)", "num", false}, {"if_else", "IF(FALSE, 0, %F%)", "num", false},
	{"concat", "CONCAT('a', %F%, 'b')", "num", false}, {"array", "ARRAY(1, %F%)", "num", false}, {"first_array", "FIRST(ARRAY(%F%))", "num", false},
	{"changetype", "CHANGETYPE(%F%, 'string')", "num", false}, {"hash", "HASH(%F%, 'md5')", "str", false}, {"encode", "ENCODE(%F%, 'hex')", "str", false},
	{"upper", "TO_UPPER(%F%)", "str", false}, {"tuple", "(%F%, 2)", "num", false}, {"dual_subquery", "(SELECT %F% AS y FROM dual)", "num", false},
	{"scoped", "SCOPED.%F%", "num", false}, {"async_arg", "ASYNC.fx(%A%, %F%)", "num", false}, {"spinasync_arg", "SPINASYNC.fx(%A%, %F%)", "num", false},
	{"async_arg_expr", "ASYNC.fx(%A%, 1 + %F%)", "num", false},
}

func ctxColumn(kind string, pick func([]string) string) string {
	switch kind {
	case "str":
		return "s"
	case "bool":
		return "f"
	}
	return pick([]string{"a", "id"})
}

// ctxSQL instantiates a context around site s; aux is the id of the background call in %A% (0: none).
func (c exprCtx) ctxSQL(prefix string, s, aux int, col string) string {
	q := strings.ReplaceAll(c.tpl, "%F%", fmt.Sprintf("fid(%d, %s%s)", s, prefix, col))
	q = strings.ReplaceAll(q, "%P%", prefix)
	return strings.ReplaceAll(q, "%A%", fmt.Sprint(aux))
}

func (b *fqBuilder) ctxItem(prefix string, boolOnly bool) (string, exprCtx, int) {
	var pool []exprCtx
	for _, c := range exprContexts {
		if !boolOnly || c.boolean {
			pool = append(pool, c)
		}
	}
	c := pool[rapid.IntRange(0, len(pool)-1).Draw(b.t, "expr_ctx")]
	s := b.next("under_" + c.name)
	aux := 0
	if strings.Contains(c.tpl, "%A%") {
		b.site++
		aux = b.site
		b.async = append(b.async, aux)
	}
	col := ctxColumn(c.arg, func(xs []string) string { return rapid.SampledFrom(xs).Draw(b.t, "ctx_col") })
	return c.ctxSQL(prefix, s, aux, col), c, s
}

func (b *fqBuilder) selectItem(prefix string, nestedOK bool) string {
	kinds := []string{"col", "stub", "concat", "case", "arith", "subquery", "stub", "backref", "once_stub", "if_arg", "between", "in_list", "await_stub", "ctx", "ctx", "ctx"}
	if b.asyncOK {
		kinds = append(kinds, "async", "spin", "spinasync")
	}
	k := rapid.SampledFrom(kinds).Draw(b.t, "item_kind")
	col := func(c string) string { return prefix + c }
	switch k {
	case "col":
		return col(rapid.SampledFrom([]string{"id", "a", "s"}).Draw(b.t, "col"))
	case "stub":
		s := b.next("select")
		return fmt.Sprintf("fid(%d, %s) AS x%d", s, col(rapid.SampledFrom([]string{"id", "a", "s"}).Draw(b.t, "col")), s)
	case "ctx":
		q, c, s := b.ctxItem(prefix, false)
		if strings.HasPrefix(c.tpl, "SPIN") {
			return q // adds no column
		}
		return fmt.Sprintf("%s AS x%d", q, s)
	case "once_stub":
		// a ONCE-qualified call is synchronous: its failure is the query's failure
		if b.usedOnce {
			return col("id")
		}
		b.usedOnce = true
		s := b.next("once_qualified_call")
		return fmt.Sprintf("ONCE.fid(%d, %s) AS x%d", s, col("a"), s)
	case "await_stub":
		// the awaited expression is evaluated by a post-processor, after the rows were built
		s := b.next("awaited_expression")
		return fmt.Sprintf("AWAIT(fid(%d, %s)) AS x%d", s, col("a"), s)
	case "if_arg":
		s := b.next("function_argument")
		return fmt.Sprintf("IF(%s >= 20, fid(%d, %s), %s) AS x%d", col("a"), s, col("a"), col("id"), s)
	case "between":
		s := b.next("between_bound")
		return fmt.Sprintf("%s BETWEEN 0 AND fid(%d, %s) AS x%d", col("id"), s, col("a"), s)
	case "in_list":
		s := b.next("in_list_element")
		return fmt.Sprintf("%s IN (1, fid(%d, %s)) AS x%d", col("id"), s, col("id"), s)
	case "concat":
		s := b.next("function_argument")
		return fmt.Sprintf("CONCAT(fid(%d, %s), '-') AS x%d", s, col("s"), s)
	case "case":
		s1 := b.next("case_branch")
		s2 := b.next("case_branch")
		return fmt.Sprintf("CASE WHEN %s >= %d THEN fid(%d, %s) ELSE fid(%d, %s) END AS x%d", col("a"), rapid.IntRange(0, 4).Draw(b.t, "c")*10, s1, col("a"), s2, col("id"), s1)
	case "arith":
		s := b.next("arithmetic_operand")
		return fmt.Sprintf("%s + fid(%d, %s) AS x%d", col("a"), s, col("id"), s)
	case "subquery":
		if !nestedOK {
			return col("id")
		}
		s := b.next("row_scoped_subquery")
		return fmt.Sprintf("(SELECT fid(%d, v) AS y FROM %s) AS sub%d", s, col("n"), s)
	case "backref":
		if !nestedOK {
			return col("a")
		}
		s := b.next("backref_subquery")
		return fmt.Sprintf("(SELECT fid(%d, ip) AS ip FROM `<-%smeta`) AS m%d", s, b.root, s)
	case "async", "spin", "spinasync":
		b.site++
		b.async = append(b.async, b.site)
		// the argument is evaluated before the call is handed to its goroutine; some argument
		// expressions fail on particular rows only (division by zero, index past the end)
		arg := col("a")
		if b.riskyArgs {
			arg = rapid.SampledFrom([]string{col("a"), col("a") + " DIV (" + col("id") + " - 2)", "`" + prefix + "tags[1]`", "`" + prefix + "n[0].v`", col("a") + " % (" + col("id") + " - 1)"}).Draw(b.t, "risky_arg")
		}
		if k == "async" {
			return fmt.Sprintf("ASYNC.fx(%d, %s) AS y%d", b.site, arg, b.site)
		}
		return fmt.Sprintf("%s.fx(%d, %s)", strings.ToUpper(k), b.site, arg)
	}
	return col("id")
}

func (b *fqBuilder) where(prefix string, nestedOK bool) string {
	kinds := []string{"none", "stub_cmp", "and", "in_sub", "exists", "like", "not", "between", "ctx", "ctx"}
	k := rapid.SampledFrom(kinds).Draw(b.t, "where_kind")
	c := rapid.IntRange(0, 4).Draw(b.t, "wc") * 10
	col := func(x string) string { return prefix + x }
	switch k {
	case "none":
		return ""
	case "stub_cmp":
		s := b.next("where")
		return fmt.Sprintf(" WHERE fid(%d, %s) >= %d", s, col("a"), c)
	case "ctx":
		q, _, _ := b.ctxItem(prefix, true)
		return " WHERE " + q
	case "and":
		s := b.next("where")
		conn := rapid.SampledFrom([]string{"AND", "OR"}).Draw(b.t, "conn")
		return fmt.Sprintf(" WHERE %s >= %d %s fid(%d, %s) > 0", col("a"), c, conn, s, col("id"))
	case "in_sub":
		if !nestedOK {
			return ""
		}
		s := b.next("in_subquery")
		return fmt.Sprintf(" WHERE %s IN (SELECT fid(%d, v) AS y FROM %s)", col("id"), s, col("n"))
	case "exists":
		if !nestedOK {
			return ""
		}
		s := b.next("exists_subquery")
		return fmt.Sprintf(" WHERE EXISTS (SELECT v FROM %s WHERE fid(%d, v) >= %d)", col("n"), s, c/10)
	case "like":
		s := b.next("where")
		return fmt.Sprintf(" WHERE fid(%d, %s) LIKE 'x%%'", s, col("s"))
	case "not":
		s := b.next("where")
		return fmt.Sprintf(" WHERE NOT (fid(%d, %s) < %d)", s, col("a"), c)
	case "between":
		s := b.next("where")
		return fmt.Sprintf(" WHERE fid(%d, %s) >= %d AND %s <= %d", s, col("a"), c, col("a"), c+20)
	}
	return ""
}

func (b *fqBuilder) simpleSelect(table string) string {
	n := rapid.IntRange(1, 3).Draw(b.t, "nitems")
	var items []string
	seen := map[string]bool{}
	for i := 0; i < n; i++ {
		it := b.selectItem("", true)
		if seen[it] {
			continue
		}
		seen[it] = true
		items = append(items, it)
	}
	return fmt.Sprintf("SELECT %s FROM %s%s", strings.Join(items, ", "), table, b.where("", true))
}

// genFaultQuery draws one query with at least one fault site.
func genFaultQuery(t *rapid.T) faultQuery { return genFaultQueryOpt(t, "", false) }

func genFaultQueryOpt(t *rapid.T, root string, asyncOK bool) faultQuery {
	return genFaultQueryRisky(t, root, asyncOK, false)
}

func genFaultQueryRisky(t *rapid.T, root string, asyncOK, riskyArgs bool) faultQuery {
	T, U := root+"t", root+"u"
	for attempt := 0; ; attempt++ {
		b := &fqBuilder{t: t, root: root, asyncOK: asyncOK, riskyArgs: riskyArgs}
		shape := rapid.SampledFrom([]string{"simple", "derived", "cte", "cte_chain", "group_having", "union", "join", "modifiers", "star", "nested_sub",
			"cte_union", "derived_with", "join_derived_with", "cte_direct", "join_on_func", "selector_cols", "selector_from", "cte_twice", "derived_in_join", "lazy_cte", "multi_dim", "join_on_await"}).Draw(t, "shape")
		var q string
		open := false
		switch shape {
		case "simple":
			q = b.simpleSelect(T)
		case "derived":
			q = fmt.Sprintf("SELECT * FROM (%s) d", b.simpleSelect(T))
		case "cte":
			q = fmt.Sprintf("WITH c AS (%s) SELECT * FROM c", b.simpleSelect(T))
		case "cte_chain":
			q = fmt.Sprintf("WITH c1 AS (%s), c2 AS (SELECT * FROM c1) SELECT * FROM c2", b.simpleSelect(T))
		case "group_having":
			s := b.next("having")
			q = fmt.Sprintf("SELECT s, COUNT(*) AS c FROM %s%s GROUP BY s HAVING fid(%d, 1) = 1", T, b.where("", true), s)
			open = true
		case "union":
			all := rapid.SampledFrom([]string{"UNION ALL", "UNION"}).Draw(t, "union_kind")
			left := b.simpleSelect(T)
			s := b.next("union_branch")
			q = fmt.Sprintf("%s %s SELECT id, fid(%d, b) AS x%d FROM %s", left, all, s, s, U)
		case "join":
			jt := rapid.SampledFrom([]string{"JOIN", "LEFT JOIN", "HASH_JOIN"}).Draw(t, "jt")
			s := b.next("where_over_join")
			q = fmt.Sprintf("SELECT * FROM %s x %s %s y ON x.id = y.id WHERE fid(%d, x.a) >= %d", T, jt, U, s, rapid.IntRange(0, 3).Draw(t, "jc")*10)
			open = true
		case "modifiers":
			q = b.simpleSelect(T)
			if rapid.Bool().Draw(t, "distinct") {
				q = strings.Replace(q, "SELECT ", "SELECT DISTINCT ", 1)
			}
			if rapid.Bool().Draw(t, "order") && strings.Contains(q, "id") {
				q += " ORDER BY id DESC"
			}
			if rapid.Bool().Draw(t, "limit") {
				q += fmt.Sprintf(" LIMIT %d", rapid.IntRange(1, 3).Draw(t, "lim"))
			}
		case "star":
			q = "SELECT *" + " FROM " + T + b.where("", true)
			if len(b.sites) == 0 {
				s := b.next("select")
				q = fmt.Sprintf("SELECT *, fid(%d, id) AS x%d FROM %s", s, s, T)
			}
		case "cte_union":
			inner := b.simpleSelect(T)
			s := b.next("union_branch")
			q = fmt.Sprintf("WITH c AS (%s) SELECT * FROM c UNION ALL SELECT id, fid(%d, b) AS x%d FROM %s", inner, s, s, U)
		case "derived_with":
			q = fmt.Sprintf("SELECT * FROM (WITH c AS (%s) SELECT * FROM c) d", b.simpleSelect(T))
		case "join_derived_with":
			s1 := b.next("cte_in_derived_table")
			s2 := b.next("cte_in_derived_table")
			q = fmt.Sprintf("SELECT * FROM (WITH c1 AS (SELECT id, fid(%d, a) AS a FROM %s) SELECT id, a FROM c1) x JOIN (WITH c2 AS (SELECT fid(%d, id) AS id FROM %s) SELECT id FROM c2) y ON x.id = y.id", s1, T, s2, U)
			open = true
		case "cte_twice":
			s := b.next("cte_body_read_twice")
			q = fmt.Sprintf("WITH c AS (SELECT id, a, fid(%d, a) AS x%d FROM %s) SELECT id, (SELECT a FROM `<-c` WHERE a >= 10) AS again FROM c", s, s, T)
		case "lazy_cte":
			// the CTE is not read by FROM: it is evaluated lazily, during Exec, when the first row-scoped subquery reaches it
			s := b.next("lazily_evaluated_cte_body")
			q = fmt.Sprintf("WITH c AS (SELECT id, fid(%d, a) AS x%d FROM %s) SELECT id, (SELECT x%d FROM `<-c` WHERE id >= 2) AS sub FROM %s%s", s, s, T, s, T, b.where("", false))
		case "derived_in_join":
			s := b.next("derived_table_in_join")
			q = fmt.Sprintf("SELECT * FROM (SELECT id, fid(%d, a) AS a FROM %s) x JOIN %s y ON x.id = y.id", s, T, U)
			open = true
		case "cte_direct":
			s := b.next("cte_read_through_selector")
			q = fmt.Sprintf("WITH c AS (SELECT id, n, fid(%d, a) AS x%d FROM %s%s) SELECT v FROM `c.n`", s, s, T, b.where("", true))
		case "join_on_await":
			// ON is evaluated while New builds the query: what an AWAIT in it defers is owed by every Exec of the query
			jt := rapid.SampledFrom([]string{"JOIN", "LEFT JOIN", "STRAIGHT_JOIN"}).Draw(t, "jat")
			s := b.next("awaited_in_join_on")
			q = fmt.Sprintf("SELECT x.id AS id, y.id AS yid FROM %s x %s %s y ON x.id = y.id OR AWAIT(fid(%d, x.id)) IS NULL", T, jt, U, s)
			open = true
		case "join_on_func":
			jt := rapid.SampledFrom([]string{"JOIN", "LEFT JOIN", "RIGHT JOIN", "PARALLEL JOIN", "PARALLEL LEFT JOIN", "STRAIGHT_JOIN"}).Draw(t, "jt")
			op := rapid.SampledFrom([]string{"<=", "<", ">=", "!=", "="}).Draw(t, "jop")
			s := b.next("join_on")
			q = fmt.Sprintf("SELECT * FROM %s x %s %s y ON x.id %s y.id AND fid(%d, TRUE)", T, jt, U, op, s)
			open = true
		case "selector_cols":
			cols := rapid.SliceOfNDistinct(rapid.SampledFrom(selectorColumns), 1, 3, func(s string) string { return s }).Draw(t, "selcols")
			s := b.next("select")
			q = fmt.Sprintf("SELECT id, %s, fid(%d, a) AS x%d FROM %s%s", strings.Join(cols, ", "), s, s, T, b.where("", true))
		case "selector_from":
			s := b.next("select")
			switch rapid.SampledFrom([]string{"distinct_objs", "slice", "nested", "distinct_rows"}).Draw(t, "selfrom") {
			case "distinct_objs":
				q = fmt.Sprintf("SELECT fid(%d, k) AS y FROM `distinct=>%sobjs`", s, root)
			case "slice":
				q = fmt.Sprintf("SELECT id, fid(%d, a) AS y FROM `%st[(%s)]`", s, root, rapid.SampledFrom([]string{"0:end", "1:end", "begin:2", "begin:end"}).Draw(t, "slice"))
			case "nested":
				q = fmt.Sprintf("SELECT fid(%d, v) AS y FROM `%st[0].n`", s, root)
			case "distinct_rows":
				q = fmt.Sprintf("SELECT fid(%d, id) AS y FROM `distinct=>%st`", s, root)
			}
		case "multi_dim":
			// FROM rows that are arrays themselves: every inner array is evaluated on a copy of the query
			q = b.simpleSelect(root + "deep")
			if rapid.Bool().Draw(t, "multi_dim_cte") {
				q = fmt.Sprintf("WITH c AS (%s) SELECT * FROM c", q)
			}
		case "nested_sub":
			s := b.next("nested_subquery_where")
			s2 := b.next("row_scoped_subquery")
			q = fmt.Sprintf("SELECT id, (SELECT fid(%d, v) AS y FROM n WHERE fid(%d, v) >= %d) AS sub FROM %s%s", s2, s, rapid.IntRange(0, 3).Draw(t, "nc"), T, b.where("", false))
		}
		if len(b.sites) == 0 {
			if attempt > 20 {
				s := b.next("select")
				q = fmt.Sprintf("SELECT id, fid(%d, a) AS x%d FROM %s", s, s, T)
			} else {
				continue
			}
		}
		return faultQuery{Query: q, Sites: b.sites, OrderOpen: open, Shape: shape, Positions: append([]string{}, b.pos...), Async: b.async}
	}
}

// followUps are run after a failed query on the same input.
var followUps = []string{
	"SELECT * FROM t",
	"SELECT DISTINCT * FROM t",
	"SELECT COUNT(*) AS c FROM t",
	"SELECT id, (SELECT v FROM n) AS sub FROM t",
	"SELECT id FROM t WHERE EXISTS (SELECT v FROM n WHERE v >= 0)",
}
