package main

import (
	"encoding/json"
	"fmt"
	"math"
	"strings"

	"pgregory.net/rapid"

	"verif/casefmt"
)

// C03 — GROUP BY partitions rows; aggregates cover exactly their group and
// honour WHERE; group order is first appearance, identically on every run.
//
// What the simulator contributes is the "identically on every run" clause:
// every map iteration of the engine (group bookkeeping, grouping-column set,
// aggregate memo) is replayed under adversarial orders (sorted, reverse,
// rotated, random) and all of them must give the same exact *sequence* the
// reference group-by gives.

type c03Agg struct {
	Fn    string `json:"fn"`  // count | sum | min | max | avg
	Col   string `json:"col"` // "" for COUNT(*)
	Alias string `json:"alias"`
}

// c03Pred is a predicate over NULL-free numeric columns (WHERE) or over
// aggregates (HAVING): a tree of comparisons joined by AND/OR.
type c03Pred struct {
	Conn  string   `json:"conn,omitempty"`
	Left  *c03Pred `json:"left,omitempty"`
	Right *c03Pred `json:"right,omitempty"`
	// leaf
	Agg *c03Agg `json:"agg,omitempty"` // HAVING leaf: aggregate on the left-hand side
	// HAVING leaf: the aggregate is named by the alias it has in the select list (HAVING r0 > 3), not spelled out
	Alias string `json:"alias,omitempty"`
	Col   string `json:"col,omitempty"` // WHERE leaf: column on the left-hand side
	// WHERE leaf: EXISTS (SELECT w FROM n GROUP BY w HAVING COUNT(*) >= ExistsK) over the row's nested array n
	ExistsK int     `json:"exists_k,omitempty"`
	Op      string  `json:"op,omitempty"`
	K       float64 `json:"k"`
}

type c03Expect struct {
	GroupBy  []string   `json:"group_by"` // empty: whole-table form
	SelCols  []string   `json:"sel_cols"` // grouping columns in the select list
	Star     bool       `json:"star"`
	Aggs     []c03Agg   `json:"aggs"`
	Where    *c03Pred   `json:"where,omitempty"`
	Having   *c03Pred   `json:"having,omitempty"`
	Query    string     `json:"query"`
	Limit    int        `json:"limit,omitempty"` // LIMIT n on the grouped query (0 = none)
	Rows2    []any      `json:"rows2,omitempty"` // expected result of a second Exec when it differs (WHERE reads a variable the query writes)
	Len2     [][]string `json:"lenient2,omitempty"`
	HasRows2 bool       `json:"has_rows2,omitempty"`
	// FirstFails: the first Exec is meant to fail part-way through its select list (a value no aggregate can add up in a
	// row that passes WHERE then); only the second Exec - after the caller moved the variable - is compared
	FirstFails bool `json:"first_fails,omitempty"`
	Wrap     string     `json:"wrap,omitempty"`      // "" | derived | cte: the grouped query sits in a derived table / CTE
	Dims     []int      `json:"dims,omitempty"`      // wrap dims (FROM d.items over [[rows], NULL, [rows]]): number of expected rows per inner table
	OverJoin bool       `json:"over_join,omitempty"` // the grouped rows come from a join: only run-to-run identity is decided
	Rows     []any      `json:"rows"`                // expected exact sequence
	Lenient  [][]string `json:"lenient"`             // per output row: aliases whose value the statement leaves open
}

func (a c03Agg) sql() string {
	if a.Fn == "count" {
		return "COUNT(*)"
	}
	return fmt.Sprintf("%s(%s)", strings.ToUpper(a.Fn), a.Col)
}

func (p *c03Pred) sql() string {
	if p.Conn != "" {
		return fmt.Sprintf("(%s %s %s)", p.Left.sql(), p.Conn, p.Right.sql())
	}
	if p.ExistsK > 0 {
		return fmt.Sprintf("EXISTS (SELECT w FROM n GROUP BY w HAVING COUNT(*) >= %d)", p.ExistsK)
	}
	lhs := p.Col
	if p.Agg != nil {
		lhs = p.Agg.sql()
		if p.Alias != "" {
			lhs = p.Alias
		}
	}
	return fmt.Sprintf("%s %s %s", lhs, p.Op, trimFloat(p.K))
}

func cmpOp(op string, a, b float64) bool {
	switch op {
	case "=":
		return a == b
	case "!=":
		return a != b
	case "<":
		return a < b
	case "<=":
		return a <= b
	case ">":
		return a > b
	case ">=":
		return a >= b
	}
	panic("bad op " + op)
}

// aggValue computes one aggregate over the member rows. open reports that the
// statement leaves the value open (SUM/MIN/MAX over members that are all NULL).
func aggValue(a c03Agg, members []map[string]any) (val any, open bool) {
	if a.Fn == "count" {
		return float64(len(members)), false
	}
	var nums []float64
	for _, m := range members {
		var cell any = m[a.Col]
		if a.Col == "o.p" {
			cell = m["o"].(map[string]any)["p"]
		}
		if v, ok := cell.(float64); ok {
			nums = append(nums, v)
		}
	}
	if len(nums) == 0 {
		return nil, len(members) > 0
	}
	switch a.Fn {
	case "sum", "avg":
		s := 0.0
		for _, n := range nums {
			s += n
		}
		if a.Fn == "avg" {
			return s / float64(len(nums)), false
		}
		return s, false
	case "min":
		m := math.Inf(1)
		for _, n := range nums {
			m = math.Min(m, n)
		}
		return m, false
	case "max":
		m := math.Inf(-1)
		for _, n := range nums {
			m = math.Max(m, n)
		}
		return m, false
	}
	panic("bad aggregate " + a.Fn)
}

func (p *c03Pred) evalRow(row map[string]any) bool {
	if p.Conn == "AND" {
		return p.Left.evalRow(row) && p.Right.evalRow(row)
	}
	if p.Conn == "OR" {
		return p.Left.evalRow(row) || p.Right.evalRow(row)
	}
	if p.ExistsK > 0 {
		counts := map[string]int{}
		ns, _ := row["n"].([]any)
		for _, e := range ns {
			counts[e.(map[string]any)["w"].(string)]++
		}
		for _, c := range counts {
			if c >= p.ExistsK {
				return true
			}
		}
		return false
	}
	// (o.p: WHERE may name the very path a GROUP BY column is written as)
	return cmpOp(p.Op, c03Get(row, p.Col).(float64), p.K)
}

// evalGroup evaluates a HAVING tree; ok=false when some aggregate it needs is
// left open by the statement (then the group's membership in the output is
// itself open and the whole case is skipped).
func (p *c03Pred) evalGroup(members []map[string]any) (res bool, ok bool) {
	if p.Conn != "" {
		l, ok1 := p.Left.evalGroup(members)
		r, ok2 := p.Right.evalGroup(members)
		if !ok1 || !ok2 {
			return false, false
		}
		if p.Conn == "AND" {
			return l && r, true
		}
		return l || r, true
	}
	v, open := aggValue(*p.Agg, members)
	f, isNum := v.(float64)
	if open || !isNum {
		return false, false
	}
	return cmpOp(p.Op, f, p.K), true
}

// c03Get reads a grouping column of a row; "o.p" is a path into the nested object.
func c03Get(row map[string]any, col string) any {
	if col == "o.p" {
		o, _ := row["o"].(map[string]any)
		return o["p"]
	}
	return row[col]
}

// c03Out is the name a selected grouping column gets in the output: the last segment of its path.
func c03Out(col string) string {
	if i := strings.LastIndex(col, "."); i >= 0 {
		return col[i+1:]
	}
	return col
}

func keyEqual(a, b any) bool {
	switch x := a.(type) {
	case nil:
		return b == nil
	case float64:
		y, ok := b.(float64)
		return ok && x == y
	case string:
		y, ok := b.(string)
		return ok && x == y
	case bool:
		y, ok := b.(bool)
		return ok && x == y
	}
	return false
}

// referenceGroupBy is the oracle. It returns ok=false when the statement
// leaves the outcome open for this case.
func referenceGroupBy(e *c03Expect, table []any) (rows []any, lenient [][]string, ok bool) {
	var passing []map[string]any
	for _, r := range table {
		row := r.(map[string]any)
		if e.Where == nil || e.Where.evalRow(row) {
			passing = append(passing, row)
		}
	}
	project := func(key map[string]any, members []map[string]any) (map[string]any, []string) {
		out := map[string]any{}
		var open []string
		for _, c := range e.SelCols {
			out[c03Out(c)] = key[c]
		}
		if e.Star {
			// `*` expands to the whole group row: every grouping column and the member list
			for _, c := range e.GroupBy {
				out[c] = key[c]
			}
			ms := make([]any, len(members))
			for i, m := range members {
				ms[i] = m
			}
			out["*"] = ms
		}
		for _, a := range e.Aggs {
			v, o := aggValue(a, members)
			out[a.Alias] = v
			if o {
				open = append(open, a.Alias)
			}
		}
		return out, open
	}
	if len(e.GroupBy) == 0 {
		row, open := project(nil, passing)
		return []any{row}, [][]string{open}, true
	}
	type group struct {
		key     map[string]any
		members []map[string]any
	}
	var groups []*group
	for _, row := range passing {
		var g *group
		for _, cand := range groups {
			same := true
			for _, c := range e.GroupBy {
				if !keyEqual(cand.key[c], c03Get(row, c)) {
					same = false
					break
				}
			}
			if same {
				g = cand
				break
			}
		}
		if g == nil {
			g = &group{key: map[string]any{}}
			for _, c := range e.GroupBy {
				g.key[c] = c03Get(row, c)
			}
			groups = append(groups, g)
		}
		g.members = append(g.members, row)
	}
	rows = []any{}
	for _, g := range groups {
		if e.Having != nil {
			keep, decided := e.Having.evalGroup(g.members)
			if !decided {
				return nil, nil, false
			}
			if !keep {
				continue
			}
		}
		row, open := project(g.key, g.members)
		rows = append(rows, row)
		lenient = append(lenient, open)
	}
	return rows, lenient, true
}

var c03NumCols = []string{"x", "y", "z", "o.p"} // x has NULLs; y, z and the nested o.p are NULL-free

func drawWherePred(t *rapid.T, depth int) *c03Pred {
	if rapid.IntRange(0, 7).Draw(t, "w_exists") == 0 {
		// a row-scoped subquery with its own GROUP BY and HAVING decides whether the row takes part
		return &c03Pred{ExistsK: rapid.IntRange(1, 3).Draw(t, "w_exists_k")}
	}
	if depth >= 1 || rapid.IntRange(0, 2).Draw(t, "w_leaf") > 0 {
		return &c03Pred{Col: rapid.SampledFrom([]string{"y", "z", "o.p"}).Draw(t, "w_col"), Op: rapid.SampledFrom([]string{"=", "!=", "<", "<=", ">", ">="}).Draw(t, "w_op"), K: float64(rapid.IntRange(-1, 4).Draw(t, "w_k"))}
	}
	return &c03Pred{Conn: rapid.SampledFrom([]string{"AND", "OR"}).Draw(t, "w_conn"), Left: drawWherePred(t, depth+1), Right: drawWherePred(t, depth+1)}
}

func drawAgg(t *rapid.T, label string) c03Agg {
	fn := rapid.SampledFrom([]string{"count", "sum", "sum", "min", "max", "avg"}).Draw(t, label+"fn")
	a := c03Agg{Fn: fn}
	switch fn {
	case "count":
	case "avg":
		a.Col = rapid.SampledFrom([]string{"y", "z"}).Draw(t, label+"col")
	default:
		a.Col = rapid.SampledFrom(c03NumCols).Draw(t, label+"col")
	}
	return a
}

// byAlias makes (some of) the leaves of a HAVING tree refer to an aggregate of
// the select list through its alias.
func (p *c03Pred) byAlias(t *rapid.T, aggs []c03Agg) {
	if p.Conn != "" {
		p.Left.byAlias(t, aggs)
		p.Right.byAlias(t, aggs)
		return
	}
	if p.Agg == nil || rapid.IntRange(0, 3).Draw(t, "leaf_spelled_out") == 0 {
		return
	}
	a := aggs[rapid.IntRange(0, len(aggs)-1).Draw(t, "alias_of")]
	p.Agg = &c03Agg{Fn: a.Fn, Col: a.Col}
	p.Alias = a.Alias
}

func drawHavingPred(t *rapid.T, depth int) *c03Pred {
	if depth >= 1 || rapid.IntRange(0, 2).Draw(t, "h_leaf") > 0 {
		a := drawAgg(t, "h_")
		return &c03Pred{Agg: &a, Op: rapid.SampledFrom([]string{"=", "!=", "<", "<=", ">", ">="}).Draw(t, "h_op"), K: float64(rapid.IntRange(-1, 6).Draw(t, "h_k"))}
	}
	return &c03Pred{Conn: rapid.SampledFrom([]string{"AND", "OR"}).Draw(t, "h_conn"), Left: drawHavingPred(t, depth+1), Right: drawHavingPred(t, depth+1)}
}

// genC03WhereVar: WHERE compares with GETVAR('lim') and the select list moves 'lim' with SETVAR; the same Query is
// executed twice. Each Exec partitions the rows that pass WHERE *at that Exec*.
func genC03WhereVar(t *rapid.T) *Bundle {
	n := rapid.IntRange(1, 8).Draw(t, "nrows")
	table := []any{}
	for i := 0; i < n; i++ {
		table = append(table, map[string]any{
			"g1": rapid.SampledFrom([]any{"a", "b", nil}).Draw(t, "g1"),
			"g3": rapid.SampledFrom([]any{"u", "v"}).Draw(t, "g3"),
			"y":  float64(rapid.IntRange(0, 3).Draw(t, "y")),
			"z":  float64(rapid.IntRange(-2, 2).Draw(t, "z")),
			"x":  nil,
			"o":  map[string]any{"p": float64(rapid.IntRange(0, 3).Draw(t, "op"))},
		})
	}
	k1 := float64(rapid.IntRange(-1, 2).Draw(t, "lim1"))
	k2 := float64(rapid.IntRange(-1, 3).Draw(t, "lim2"))
	gcols := rapid.SampledFrom([][]string{{"g1"}, {"g3"}, {"g1", "g3"}, {}}).Draw(t, "gcols")
	if len(gcols) == 0 {
		// the whole-table form: the caller changes the variable between the two Execs
		mkw := func(k float64) *c03Expect {
			return &c03Expect{Aggs: []c03Agg{{Fn: "count", Alias: "r0"}, {Fn: "sum", Col: "y", Alias: "r1"}, {Fn: "max", Col: "z", Alias: "r2"}}, Where: &c03Pred{Col: "y", Op: ">", K: k}}
		}
		if rapid.IntRange(0, 2).Draw(t, "first_fails") == 0 {
			// the first Exec fails after some aggregates have been computed: a row that passes WHERE at first (y = 2 > lim)
			// holds a text in the column the last aggregate adds up; the caller then raises lim past it and tries again
			k1 = float64(rapid.IntRange(-1, 1).Draw(t, "ff_lim1"))
			k2 = float64(rapid.IntRange(2, 3).Draw(t, "ff_lim2"))
			bad := map[string]any{"g1": "a", "g3": "u", "y": 2.0, "z": "n/a", "x": nil, "o": map[string]any{"p": 1.0}}
			at := rapid.IntRange(0, len(table)).Draw(t, "ff_at")
			table = append(table[:at], append([]any{bad}, table[at:]...)...)
			mkf := func(k float64) *c03Expect {
				return &c03Expect{Aggs: []c03Agg{{Fn: "count", Alias: "r0"}, {Fn: "sum", Col: "y", Alias: "r1"}, {Fn: "max", Col: "y", Alias: "r2"}, {Fn: "sum", Col: "z", Alias: "r3"}}, Where: &c03Pred{Col: "y", Op: ">", K: k}}
			}
			e := mkf(k2)
			e.Query = "SELECT COUNT(*) AS r0, SUM(y) AS r1, MAX(y) AS r2, SUM(z) AS r3 FROM t WHERE y > GETVAR('lim')"
			e.Rows2, e.Len2, _ = referenceGroupBy(mkf(k2), table)
			e.HasRows2, e.FirstFails = true, true
			c := oneClientCase("C03", casefmt.SimConfig{Strategy: "np", MapPolicy: "sorted"}, map[string]any{"t": table}, casefmt.Op{Doc: 0, Vars: 0, Query: e.Query, ExecTwice: true, VarsBetween: map[string]any{"lim": k2}})
			c.Vars = []map[string]any{{"lim": k1}}
			return &Bundle{Prop: "C03", Kind: "where_var", Case: c, Expect: mustJSON(e), Tags: []string{"where_var", "whole_table", "first_exec_fails"}}
		}
		e := mkw(k1)
		e.Query = "SELECT COUNT(*) AS r0, SUM(y) AS r1, MAX(z) AS r2 FROM t WHERE y > GETVAR('lim')"
		e.Rows, e.Lenient, _ = referenceGroupBy(e, table)
		e.Rows2, e.Len2, _ = referenceGroupBy(mkw(k2), table)
		e.HasRows2 = true
		sim := casefmt.SimConfig{Strategy: "np", MapPolicy: "sorted"}
		c := oneClientCase("C03", sim, map[string]any{"t": table}, casefmt.Op{Doc: 0, Vars: 0, Query: e.Query, ExecTwice: true, VarsBetween: map[string]any{"lim": k2}})
		c.Vars = []map[string]any{{"lim": k1}}
		return &Bundle{Prop: "C03", Kind: "where_var", Case: c, Expect: mustJSON(e), Tags: []string{"where_var", "whole_table"}}
	}
	mk := func(k float64) *c03Expect {
		return &c03Expect{GroupBy: gcols, SelCols: gcols, Aggs: []c03Agg{{Fn: "count", Alias: "r0"}, {Fn: "sum", Col: "y", Alias: "r1"}, {Fn: "max", Col: "z", Alias: "r2"}},
			Where: &c03Pred{Col: "y", Op: ">", K: k}}
	}
	e := mk(k1)
	q := fmt.Sprintf("SELECT %s, COUNT(*) AS r0, SUM(y) AS r1, MAX(z) AS r2, SETVAR('lim', %s) FROM t WHERE y > GETVAR('lim') GROUP BY %s", strings.Join(gcols, ", "), trimFloat(k2), strings.Join(gcols, ", "))
	e.Query = q
	rows, lenient, _ := referenceGroupBy(e, table)
	e.Rows, e.Lenient = rows, lenient
	second := k2
	if len(rows) == 0 {
		second = k1 // no group was projected, so SETVAR never ran
	}
	rows2, len2, _ := referenceGroupBy(mk(second), table)
	e.Rows2, e.Len2, e.HasRows2 = rows2, len2, true
	sim := casefmt.SimConfig{Strategy: "np", MapPolicy: rapid.SampledFrom([]string{"rotate", "random", "mixed"}).Draw(t, "map_policy"), MapSeed: uint64(rapid.IntRange(0, 1<<16).Draw(t, "map_seed"))}
	c := oneClientCase("C03", sim, map[string]any{"t": table}, casefmt.Op{Doc: 0, Vars: 0, Query: q, ExecTwice: true})
	c.Vars = []map[string]any{{"lim": k1}}
	return &Bundle{Prop: "C03", Kind: "where_var", Case: c, Expect: mustJSON(e), Tags: []string{"where_var"}}
}

// genC03OverJoin: GROUP BY over the rows of a join. No reference result here (the join's own correctness is C04's):
// what is decided is "identically on every run" - the same sequence of groups under every map order.
func genC03OverJoin(t *rapid.T) *Bundle {
	var left, right []any
	for i := 0; i < rapid.IntRange(2, 6).Draw(t, "nleft"); i++ {
		left = append(left, map[string]any{"id": float64(i + 1), "g": rapid.SampledFrom([]string{"a", "b", "c"}).Draw(t, "g")})
	}
	for i := 0; i < rapid.IntRange(2, 8).Draw(t, "nright"); i++ {
		right = append(right, map[string]any{"uid": float64(rapid.IntRange(1, len(left)).Draw(t, "uid")), "amt": float64(rapid.IntRange(1, 5).Draw(t, "amt"))})
	}
	jt := rapid.SampledFrom([]string{"JOIN", "LEFT JOIN", "HASH_JOIN", "STRAIGHT_JOIN", "PARALLEL JOIN"}).Draw(t, "jt")
	q := fmt.Sprintf("SELECT x.g, COUNT(*) AS c, SUM(y.amt) AS s FROM t x %s u y ON x.id = y.uid GROUP BY x.g", jt)
	e := &c03Expect{OverJoin: true, Query: q}
	sim := casefmt.SimConfig{Strategy: "np", MapPolicy: "rotate", MapSeed: uint64(rapid.IntRange(0, 1<<16).Draw(t, "map_seed"))}
	c := oneClientCase("C03", sim, map[string]any{"t": left, "u": right}, casefmt.Op{Doc: 0, Vars: -1, Query: q})
	return &Bundle{Prop: "C03", Kind: "over_join", Case: c, Expect: mustJSON(e), Tags: []string{"over_join"}}
}

func genC03(t *rapid.T) *Bundle {
	switch rapid.IntRange(0, 19).Draw(t, "where_var") {
	case 0:
		return genC03WhereVar(t)
	case 1:
		return genC03OverJoin(t)
	}
	n := rapid.IntRange(0, 8).Draw(t, "nrows")
	// now and then a wide table: more distinct keys than any small index, cache or batch holds, early keys recurring late
	wide := rapid.IntRange(0, 24).Draw(t, "wide_table") == 0
	if wide {
		n = rapid.IntRange(70, 220).Draw(t, "wide_rows")
	}
	mixed := rapid.IntRange(0, 4).Draw(t, "mixed_keys") == 0
	keyDom := []any{nil, "a", "b"}
	if mixed {
		keyDom = []any{nil, "1", float64(1), "<nil>", "a", true, "true", false}
	}
	table := []any{}
	for i := 0; i < n; i++ {
		row := map[string]any{
			"g1": rapid.SampledFrom(keyDom).Draw(t, "g1"),
			"g2": rapid.SampledFrom([]any{float64(1), float64(2), nil}).Draw(t, "g2"),
			"g3": rapid.SampledFrom([]any{"u", "v"}).Draw(t, "g3"),
			"y":  float64(rapid.IntRange(0, 3).Draw(t, "y")),
			"z":  float64(rapid.IntRange(-2, 2).Draw(t, "z")),
			"o":  map[string]any{"p": float64(rapid.IntRange(0, 3).Draw(t, "op"))},
		}
		ns := []any{}
		if !wide {
			for j := 0; j < rapid.IntRange(0, 4).Draw(t, "nn"); j++ {
				ns = append(ns, map[string]any{"w": rapid.SampledFrom([]string{"p", "q"}).Draw(t, "nw")})
			}
		}
		row["n"] = ns
		if rapid.IntRange(0, 3).Draw(t, "x_null") == 0 {
			row["x"] = nil
		} else {
			row["x"] = float64(rapid.IntRange(-3, 5).Draw(t, "x"))
		}
		if wide {
			// ~150 distinct values; two thirds of the way through, the early ones come back
			k := i
			if i > n*2/3 {
				k = (i * 7) % 40
			}
			row["g2"] = float64(k % 150)
		}
		table = append(table, row)
	}
	e := &c03Expect{}
	whole := rapid.IntRange(0, 4).Draw(t, "whole_table") == 0
	if !whole {
		ng := rapid.IntRange(1, 3).Draw(t, "ngroup")
		e.GroupBy = rapid.Permutation([]string{"g1", "g2", "g3", "o.p"}).Draw(t, "gcols")[:ng]
		for _, c := range e.GroupBy {
			if rapid.IntRange(0, 3).Draw(t, "sel_"+c) > 0 {
				e.SelCols = append(e.SelCols, c)
			}
		}
		e.Star = rapid.IntRange(0, 2).Draw(t, "star") == 0
		if rapid.IntRange(0, 2).Draw(t, "has_having") == 0 {
			e.Having = drawHavingPred(t, 0)
		}
	}
	if rapid.Bool().Draw(t, "has_where") {
		e.Where = drawWherePred(t, 0)
	}
	nagg := rapid.IntRange(1, 5).Draw(t, "naggs")
	if !whole && len(e.SelCols) > 0 && rapid.IntRange(0, 5).Draw(t, "no_aggs") == 0 {
		nagg = 0
	}
	for i := 0; i < nagg; i++ {
		a := drawAgg(t, "a_")
		a.Alias = fmt.Sprintf("r%d", i)
		e.Aggs = append(e.Aggs, a)
	}
	if e.Having != nil && len(e.Aggs) > 0 && rapid.IntRange(0, 2).Draw(t, "having_by_alias") == 0 {
		// HAVING names aggregates of the select list by their aliases
		e.Having.byAlias(t, e.Aggs)
	}
	var sel []string
	sel = append(sel, e.SelCols...)
	if e.Star {
		sel = append(sel, "*")
	}
	for _, a := range e.Aggs {
		sel = append(sel, a.sql()+" AS "+a.Alias)
	}
	if len(sel) == 0 {
		sel = append(sel, e.GroupBy[0])
		e.SelCols = append(e.SelCols, e.GroupBy[0])
	}
	// shuffle the select list: positions must not matter
	sel = rapid.Permutation(sel).Draw(t, "sel_order")
	q := "SELECT " + strings.Join(sel, ", ") + " FROM t"
	if e.Where != nil {
		q += " WHERE " + e.Where.sql()
	}
	if len(e.GroupBy) > 0 {
		q += " GROUP BY " + strings.Join(e.GroupBy, ", ")
	}
	if e.Having != nil {
		q += " HAVING " + e.Having.sql()
	}
	var second *c03Expect
	switch w := rapid.IntRange(0, 7).Draw(t, "wrap"); {
	case w == 0:
		e.Wrap = "derived"
		q = "SELECT * FROM (" + q + ") d"
	case w == 1:
		e.Wrap = "cte"
		q = "WITH c AS (" + q + ") SELECT * FROM c"
	case w == 2 && !whole:
		// LIMIT cuts the list of groups, never the members of a group
		e.Limit = rapid.IntRange(1, 4).Draw(t, "limit")
		q += fmt.Sprintf(" LIMIT %d", e.Limit)
	case w == 3 && whole:
		// two CTEs computing the same aggregates (identical text) over different WHERE clauses
		e.Wrap = "two_ctes"
		cp := *e
		cp.Where = drawWherePred(t, 0)
		second = &cp
		q2 := "SELECT " + strings.Join(sel, ", ") + " FROM t WHERE " + cp.Where.sql()
		q = "WITH c1 AS (" + q + "), c2 AS (" + q2 + ") SELECT (SELECT * FROM `<-c1`) AS a, (SELECT * FROM `<-c2`) AS b FROM dual"
	case w == 4 && n >= 2 && !wide:
		// the rows live one level down, in some documents only: FROM d.items reads [[rows], NULL, [rows]] - every
		// inner array is a table of its own, grouped and aggregated by itself
		e.Wrap = "dims"
		q = strings.Replace(q, " FROM t", " FROM d.items", 1)
	case w == 5 && whole && n >= 1:
		// FROM dual: the document is the one row of the table (the columns of the first row are put at its top level)
		e.Wrap = "dual"
		q = strings.Replace(q, " FROM t", " FROM dual", 1)
	}
	e.Query = q
	rows, lenient, ok := referenceGroupBy(e, table)
	if e.Wrap == "dual" {
		rows, lenient, ok = referenceGroupBy(e, table[:1])
	}
	if e.Wrap == "dims" {
		half := n / 2
		r1, l1, ok1 := referenceGroupBy(e, table[:half])
		r2, l2, ok2 := referenceGroupBy(e, table[half:])
		rows, lenient, ok = append(append([]any{}, r1...), r2...), append(append([][]string{}, l1...), l2...), ok1 && ok2
		e.Dims = []int{len(r1), len(r2)}
	}
	if e.Wrap == "derived" {
		for i := range rows {
			rows[i] = map[string]any{"d": rows[i]}
		}
	}
	if e.Limit > 0 && len(rows) > e.Limit {
		rows = rows[:e.Limit]
		if len(lenient) > e.Limit {
			lenient = lenient[:e.Limit]
		}
	}
	if second != nil && ok {
		rows2, len2, ok2 := referenceGroupBy(second, table)
		ok = ok2
		if ok2 {
			// open (all-NULL) aggregates cannot be expressed through the nesting: skip such cases
			if len(lenient[0]) > 0 || len(len2[0]) > 0 {
				ok = false
			}
			rows = []any{map[string]any{"a": []any{rows[0]}, "b": []any{rows2[0]}}}
			lenient = [][]string{nil}
		}
	}
	tags := []string{}
	if !ok {
		tags = append(tags, "open_outcome")
	}
	e.Rows, e.Lenient = rows, lenient
	if whole {
		tags = append(tags, "whole_table")
	}
	if mixed {
		tags = append(tags, "mixed_keys")
	}
	sim := casefmt.SimConfig{Strategy: "np", MapPolicy: rapid.SampledFrom([]string{"rotate", "random", "mixed"}).Draw(t, "map_policy"), MapSeed: uint64(rapid.IntRange(0, 1<<16).Draw(t, "map_seed"))}
	// the same caller may have queried the same document before, in the same process: a filter, an
	// ordering, or this very query. None of that may change what the grouped query returns.
	ops := []casefmt.Op{}
	switch rapid.IntRange(0, 4).Draw(t, "prelude") {
	case 0:
		ops = append(ops, casefmt.Op{Doc: 0, Vars: -1, Query: "SELECT y, z FROM t WHERE " + drawWherePred(t, 0).sql()})
		tags = append(tags, "prelude:filter")
	case 1:
		ops = append(ops, casefmt.Op{Doc: 0, Vars: -1, Query: q})
		tags = append(tags, "prelude:same_query")
	case 2:
		ops = append(ops, casefmt.Op{Doc: 0, Vars: -1, Query: "SELECT * FROM t ORDER BY z DESC, y LIMIT 2"})
		tags = append(tags, "prelude:order_limit")
	}
	ops = append(ops, casefmt.Op{Doc: 0, Vars: -1, Query: q, ExecTwice: rapid.Bool().Draw(t, "exec_twice")})
	doc := map[string]any{"t": table}
	if e.Wrap == "dual" {
		for k, v := range table[0].(map[string]any) {
			doc[k] = v
		}
		tags = append(tags, "dual")
	}
	if e.Wrap == "dims" {
		doc["d"] = []any{map[string]any{"id": 1.0, "items": table[:n/2]}, map[string]any{"id": 2.0}, map[string]any{"id": 3.0, "items": table[n/2:]}}
		tags = append(tags, "dims")
	}
	c := oneClientCase("C03", sim, doc, ops...)
	c.NativeInts = rapid.Bool().Draw(t, "native_ints")
	return &Bundle{Prop: "C03", Kind: map[bool]string{true: "whole_table", false: "group_by"}[whole], Case: c, Expect: mustJSON(e), Tags: tags}
}

func numClose(a, b any) bool {
	x, ok1 := a.(float64)
	y, ok2 := b.(float64)
	if ok1 && ok2 {
		return math.Abs(x-y) <= 1e-9*math.Max(1, math.Max(math.Abs(x), math.Abs(y)))
	}
	return jsonEqual(a, b)
}

// c03RowEqual compares one output row with the reference row; aliases in open
// may hold NULL or 0 (SUM) — the statement does not fix them.
func c03RowEqual(got, want any, open []string) bool {
	g, ok1 := got.(map[string]any)
	w, ok2 := want.(map[string]any)
	if ok1 && ok2 && len(g) == 1 && len(w) == 1 {
		// a row of a derived table: {"d": row}
		if gd, ok := g["d"].(map[string]any); ok {
			if wd, ok := w["d"].(map[string]any); ok {
				g, w = gd, wd
			}
		}
	}
	if !ok1 || !ok2 || len(g) != len(w) {
		return false
	}
	for k, wv := range w {
		gv, present := g[k]
		if !present {
			return false
		}
		isOpen := false
		for _, o := range open {
			if o == k {
				isOpen = true
			}
		}
		if isOpen {
			if gv == nil || numClose(gv, float64(0)) {
				continue
			}
			return false
		}
		if !numClose(gv, wv) {
			return false
		}
	}
	return true
}

func evalC03(b *Bundle, r *Runner) []*Violation {
	var e c03Expect
	if err := json.Unmarshal(b.Expect, &e); err != nil {
		infra("C03: bad expectation: %v", err)
	}
	if b.hasTag("open_outcome") {
		r.Stats.probe("skipped_open_outcome")
		return nil
	}
	// the drawn map order plus the three fixed adversarial ones
	sims := []casefmt.SimConfig{b.Case.Sim}
	for _, pol := range []string{"sorted", "reverse", "random"} {
		s := b.Case.Sim
		s.MapPolicy = pol
		s.MapSeed = b.Case.Sim.MapSeed*7 + 1
		sims = append(sims, s)
	}
	var first json.RawMessage
	var vs []*Violation
	for si, sim := range sims {
		c := b.Case
		c.Sim = sim
		o := r.Run(&c, false)
		if hv := processHealth(b, o); len(hv) > 0 {
			return hv
		}
		op := &o.Ops[len(o.Ops)-1]
		if e.FirstFails {
			// (whether the first Exec reports its failure is C19's business; what this check holds the engine to is that the
			// aggregates of the second Exec are computed over the rows that pass WHERE then)
			if failed(op) {
				r.Stats.probe("first_exec_failed_as_planned")
			}
			got2, ok2 := asArray(normJSON(op.Rows2))
			bad2 := op.Exec2 != "ok" || !ok2 || len(got2) != len(e.Rows2)
			for i := 0; !bad2 && i < len(got2); i++ {
				var open []string
				if i < len(e.Len2) {
					open = e.Len2[i]
				}
				bad2 = !c03RowEqual(got2[i], e.Rows2[i], open)
			}
			if bad2 {
				return []*Violation{mkViolation(b, "WHOLE_TABLE_AGGREGATE", "second_exec_after_failed_first", fmt.Sprintf("%s\n on t=%s\n the first Exec: %s%s; the caller then set lim and called Exec again\n reference %s\n engine    %s %s", e.Query, docTable(b, "t"), op.NewErr, op.ExecErr, canonText(e.Rows2), op.Exec2, compact(op.Rows2)), o)}
			}
			r.Stats.probe("second_exec_after_failed_first")
			continue
		}
		if failed(op) {
			return []*Violation{mkViolation(b, "GROUP_QUERY_FAILED", "", fmt.Sprintf("%s\n failed: %s%s", e.Query, op.NewErr, op.ExecErr), o)}
		}
		if si == 0 {
			first = op.Rows
		} else if string(first) != string(op.Rows) {
			site := ""
			if e.OverJoin {
				site = "over_join"
			}
			vs = append(vs, mkViolation(b, "GROUP_RUN_TO_RUN", site, fmt.Sprintf("%s\n under map order %s/%d: %s\n under map order %s/%d: %s", e.Query,
				sims[0].MapPolicy, sims[0].MapSeed, compact(first), sim.MapPolicy, sim.MapSeed, compact(op.Rows)), o))
			return vs
		}
		if e.OverJoin {
			r.Stats.probe("grouped_join_compared_run_to_run")
			continue
		}
		got, ok := asArray(normJSON(op.Rows))
		if e.Wrap == "dims" && ok {
			// one result per inner table, in the order of the source; their rows are compared in sequence
			flat := []any{}
			ok = len(got) == len(e.Dims)
			for i := 0; ok && i < len(got); i++ {
				inner, isArr := asArray(got[i])
				if got[i] == nil {
					inner, isArr = []any{}, true
				}
				ok = isArr && len(inner) == e.Dims[i]
				flat = append(flat, inner...)
			}
			got = flat
		}
		bad := !ok || len(got) != len(e.Rows)
		if !bad {
			for i := range got {
				var open []string
				if i < len(e.Lenient) {
					open = e.Lenient[i]
				}
				if !c03RowEqual(got[i], e.Rows[i], open) {
					bad = true
					break
				}
			}
		}
		if bad {
			cls := "GROUP_RESULT"
			if ok && multisetEqualLenient(got, e.Rows, e.Lenient) {
				cls = "GROUP_ORDER"
			}
			if len(e.GroupBy) == 0 {
				cls = "WHOLE_TABLE_AGGREGATE"
			}
			return []*Violation{mkViolation(b, cls, "", fmt.Sprintf("%s (map order %s/%d)\n on t=%s\n reference %s\n engine    %s", e.Query, sim.MapPolicy, sim.MapSeed,
				docTable(b, "t"), canonText(e.Rows), compact(op.Rows)), o)}
		}
		if op.Exec2 != "" && e.HasRows2 {
			// the query moved the variable its WHERE reads: the second Exec partitions the rows passing WHERE now
			got2, ok2 := asArray(normJSON(op.Rows2))
			bad2 := op.Exec2 != "ok" || !ok2 || len(got2) != len(e.Rows2)
			for i := 0; !bad2 && i < len(got2); i++ {
				var open []string
				if i < len(e.Len2) {
					open = e.Len2[i]
				}
				if !c03RowEqual(got2[i], e.Rows2[i], open) {
					bad2 = true
				}
			}
			if bad2 {
				return []*Violation{mkViolation(b, "GROUP_RESULT", "second_exec_after_variable_change", fmt.Sprintf("%s\n second Exec of the same Query (the first one set the variable WHERE compares with)\n reference %s\n engine    %s %s", e.Query, canonText(e.Rows2), op.Exec2, compact(op.Rows2)), o)}
			}
			r.Stats.probe("second_exec_after_variable_change")
		} else if op.Exec2 != "" {
			// a second Exec of the same Query is one more run: identical again
			if op.Exec2 != "ok" || string(op.Rows2) != string(op.Rows) {
				return []*Violation{mkViolation(b, "GROUP_RUN_TO_RUN", "second_exec", fmt.Sprintf("%s\n first Exec : %s\n second Exec of the same Query: %s %s", e.Query, compact(op.Rows), op.Exec2, compact(op.Rows2)), o)}
			}
			r.Stats.probe("second_exec_compared")
		}
		if len(o.Ops) > 1 {
			r.Stats.probe("ran_after_a_prelude_query")
		}
		if o.Sim.MapPermuted > 0 {
			r.Stats.probe("ran_under_permuted_map_order")
		}
	}
	if len(e.Rows) >= 2 {
		r.Stats.probe("cases_with_two_or_more_groups")
	}
	if e.Having != nil {
		r.Stats.probe("cases_with_having")
	}
	if e.Where != nil {
		r.Stats.probe("cases_with_where")
	}
	sameFn := map[string]map[string]bool{}
	for _, a := range e.Aggs {
		if sameFn[a.Fn] == nil {
			sameFn[a.Fn] = map[string]bool{}
		}
		sameFn[a.Fn][a.Col] = true
	}
	for _, cols := range sameFn {
		if len(cols) > 1 {
			r.Stats.probe("same_function_on_different_columns")
			break
		}
	}
	return vs
}

// multisetEqualLenient: the rows agree up to order (used only to classify a
// mismatch as an ordering problem).
func multisetEqualLenient(got, want []any, lenient [][]string) bool {
	if len(got) != len(want) {
		return false
	}
	used := make([]bool, len(want))
	for _, g := range got {
		found := false
		for j, w := range want {
			var open []string
			if j < len(lenient) {
				open = lenient[j]
			}
			if !used[j] && c03RowEqual(g, w, open) {
				used[j], found = true, true
				break
			}
		}
		if !found {
			return false
		}
	}
	return true
}

func corpusC03() []*Bundle {
	n := func(v float64) any { return v }
	table := []any{
		map[string]any{"g1": "a", "g2": n(1), "g3": "u", "x": n(1), "y": n(2), "z": n(-1), "o": map[string]any{"p": n(1)}},
		map[string]any{"g1": "b", "g2": n(1), "g3": "u", "x": nil, "y": n(3), "z": n(2), "o": map[string]any{"p": n(2)}},
		map[string]any{"g1": "a", "g2": n(2), "g3": "v", "x": n(5), "y": n(1), "z": n(0), "o": map[string]any{"p": n(0)}},
		map[string]any{"g1": nil, "g2": n(1), "g3": "u", "x": n(4), "y": n(0), "z": n(1), "o": map[string]any{"p": n(3)}},
		map[string]any{"g1": "b", "g2": n(1), "g3": "v", "x": n(2), "y": n(3), "z": n(-2), "o": map[string]any{"p": n(1)}},
		map[string]any{"g1": "c", "g2": nil, "g3": "v", "x": nil, "y": n(1), "z": n(1), "o": map[string]any{"p": n(2)}},
	}
	mk := func(name string, e c03Expect, tbl []any) *Bundle {
		var sel []string
		sel = append(sel, e.SelCols...)
		if e.Star {
			sel = append(sel, "*")
		}
		for i := range e.Aggs {
			if e.Aggs[i].Alias == "" {
				e.Aggs[i].Alias = fmt.Sprintf("r%d", i)
			}
			sel = append(sel, e.Aggs[i].sql()+" AS "+e.Aggs[i].Alias)
		}
		q := "SELECT " + strings.Join(sel, ", ") + " FROM t"
		if e.Where != nil {
			q += " WHERE " + e.Where.sql()
		}
		if len(e.GroupBy) > 0 {
			q += " GROUP BY " + strings.Join(e.GroupBy, ", ")
		}
		if e.Having != nil {
			q += " HAVING " + e.Having.sql()
		}
		e.Query = q
		rows, len_, ok := referenceGroupBy(&e, tbl)
		if !ok {
			panic("corpus case with open outcome: " + name)
		}
		e.Rows, e.Lenient = rows, len_
		c := oneClientCase("C03", casefmt.SimConfig{Strategy: "np", MapPolicy: "rotate", MapSeed: 3}, map[string]any{"t": tbl}, casefmt.Op{Doc: 0, Vars: -1, Query: q})
		return &Bundle{Prop: "C03", Kind: "corpus:" + name, Case: c, Expect: mustJSON(e), Tags: []string{"corpus"}}
	}
	where := &c03Pred{Col: "y", Op: ">", K: 1}
	return []*Bundle{
		mk("order-first-appearance", c03Expect{GroupBy: []string{"g1"}, SelCols: []string{"g1"}, Aggs: []c03Agg{{Fn: "count"}}}, table),
		mk("two-columns-star", c03Expect{GroupBy: []string{"g1", "g2"}, SelCols: []string{"g1", "g2"}, Star: true, Aggs: []c03Agg{{Fn: "sum", Col: "x"}}}, table),
		mk("same-function-twice", c03Expect{GroupBy: []string{"g3"}, SelCols: []string{"g3"}, Aggs: []c03Agg{{Fn: "sum", Col: "x"}, {Fn: "sum", Col: "y"}, {Fn: "max", Col: "z"}, {Fn: "max", Col: "y"}}}, table),
		mk("whole-table-where", c03Expect{Where: where, Aggs: []c03Agg{{Fn: "count"}, {Fn: "sum", Col: "y"}, {Fn: "sum", Col: "z"}, {Fn: "min", Col: "x"}, {Fn: "avg", Col: "y"}}}, table),
		mk("whole-table-none-pass", c03Expect{Where: &c03Pred{Col: "y", Op: ">", K: 100}, Aggs: []c03Agg{{Fn: "count"}, {Fn: "sum", Col: "y"}, {Fn: "min", Col: "y"}, {Fn: "max", Col: "y"}, {Fn: "avg", Col: "y"}}}, table),
		mk("whole-table-empty", c03Expect{Aggs: []c03Agg{{Fn: "count"}, {Fn: "sum", Col: "y"}}}, []any{}),
		mk("group-where-having", c03Expect{GroupBy: []string{"g1"}, SelCols: []string{"g1"}, Where: where, Having: &c03Pred{Agg: &c03Agg{Fn: "count"}, Op: ">=", K: 1}, Aggs: []c03Agg{{Fn: "count"}, {Fn: "min", Col: "y"}}}, table),
		mk("having-sum-other-column", c03Expect{GroupBy: []string{"g1"}, SelCols: []string{"g1"}, Having: &c03Pred{Agg: &c03Agg{Fn: "sum", Col: "y"}, Op: ">", K: 3}, Aggs: []c03Agg{{Fn: "sum", Col: "x"}}}, table),
		mk("empty-table-group", c03Expect{GroupBy: []string{"g1"}, SelCols: []string{"g1"}, Aggs: []c03Agg{{Fn: "count"}}}, []any{}),
	}
}

func init() {
	register(&Property{
		ID: "C03", Plain: true, Level: "exploration",
		Rule:   "cases = rapid-generated tables (0-8 rows; grouping columns over {NULL, strings, numbers, look-alike mixed-type keys}; numeric columns with and without NULLs) x queries (1-3 grouping columns, subset of them selected, optional `*`, 0-5 aliased aggregates COUNT(*)/SUM/MIN/MAX/AVG incl. the same function on different columns, optional WHERE tree over NULL-free columns, optional HAVING tree over aggregates; or the whole-table all-aggregate form; optionally wrapped in a derived table / CTE, with LIMIT, as two CTEs with identically spelled aggregates, after a prelude query on the same document in the same process, with a second Exec of the same Query) plus a fixed corpus; each case is executed under 4 map-iteration orders chosen by the simulator (drawn rotate/random/mixed + sorted + reverse + random) and every execution must equal, as an exact sequence, a reference group-by computed by the driver, and all executions must be byte-identical to each other; non-trivial = a non-identity map order was applied; distinct = distinct case-file hash; plus grouping by a path (o.p), EXISTS..GROUP BY..HAVING leaves in WHERE, whole-table aggregates with the caller changing a variable between two Execs, tables of 70-220 rows with ~150 distinct keys, and GROUP BY over a join (run-to-run identity only); rows one level down in some documents only (FROM d.items over [[rows], NULL, [rows]]: one reference group-by per inner table), whole-table aggregates FROM dual, WHERE leaves on the grouping path, HAVING leaves written with the select-list alias of the aggregate, numeric keys held in different Go types",
		Corpus: corpusC03, Gen: genC03, Eval: evalC03, QuickChecks: 500,
		Assumptions: []string{
			"value clauses are decided by model comparison on the sampled workload only; the simulator decides the run-to-run stability clause by controlling every map iteration order",
			"SUM/MIN/MAX over a non-empty group whose members are all NULL: NULL or 0 accepted (the statement does not fix it); HAVING trees that would depend on such a value are skipped",
			"AVG only on NULL-free columns and COUNT only as COUNT(*), as in the statement",
		},
		Components: map[string][]string{
			"real": {"genql (instrumented copy of /repo working tree)", "sqlparser", "compare", "Go runtime"},
			"stub": {"map iteration order (zzsim)", "goroutine scheduler (zzsim; single client task)"},
		},
	})
}
