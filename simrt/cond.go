package zzsim

import (
	"fmt"
	"sync"
)

// ---------------------------------------------------------------- Cond
//
// Cond mirrors sync.Cond. Under a simulation the waiters are parked by the
// scheduler; Signal wakes the longest waiter (the runtime's notify list is
// FIFO), Broadcast all of them. A waiter that nobody signals stays blocked and
// shows as a DEADLOCK - the lost wake-up it is. The happens-before edge of a
// signal (release by the signaller, acquire by the woken waiter) is made real
// with an inner mutex so that ThreadSanitizer sees what it would see with the
// real primitive; everything else the program orders through L, which is its
// own (wrapped) lock.

type condWaiter struct {
	task     int
	signaled bool
}

type Cond struct {
	L sync.Locker

	hb       sync.Mutex
	realOnce sync.Once
	real     *sync.Cond
	waiters  []*condWaiter
}

func NewCond(l sync.Locker) *Cond { return &Cond{L: l} }

func (c *Cond) passThrough() *sync.Cond {
	c.realOnce.Do(func() { c.real = sync.NewCond(c.L) })
	return c.real
}

//go:norace
func (c *Cond) simEnqueue() *condWaiter {
	s := S
	if s == nil {
		return nil
	}
	w := &condWaiter{task: s.cur.id}
	c.waiters = append(c.waiters, w)
	return w
}

//go:norace
func (c *Cond) simPark(w *condWaiter) {
	s := S
	if s == nil {
		return
	}
	for !w.signaled {
		cur := s.cur
		cur.state = stBlocked
		cur.blockedOn = fmt.Sprintf("Cond.Wait(%p) waiters=%d", c, len(c.waiters))
		cur.since = s.steps
		s.record("block", cur.id, -1, 0, "cond")
		s.block(0)
	}
}

// simNotify marks the first (all) waiting tickets signalled and drops them from the list.
//
//go:norace
func (c *Cond) simNotify(all bool) bool {
	s := S
	if s == nil {
		return false
	}
	s.yield(0, false)
	woke := false
	for len(c.waiters) > 0 {
		w := c.waiters[0]
		c.waiters = c.waiters[1:]
		w.signaled = true
		woke = true
		if !all {
			break
		}
	}
	if woke {
		s.wakeBlockedOn("Cond")
	}
	return true
}

func (c *Cond) Wait() {
	w := c.simEnqueue()
	if w == nil {
		c.passThrough().Wait()
		return
	}
	c.L.Unlock()
	c.simPark(w)
	c.hb.Lock()
	//lint:ignore SA2001 the empty critical section is the acquire half of the signal's happens-before edge
	c.hb.Unlock()
	c.L.Lock()
}

func (c *Cond) Signal() {
	c.hb.Lock()
	//lint:ignore SA2001 release half of the happens-before edge
	c.hb.Unlock()
	if !c.simNotify(false) {
		c.passThrough().Signal()
		return
	}
	AfterSync()
}

func (c *Cond) Broadcast() {
	c.hb.Lock()
	//lint:ignore SA2001 release half of the happens-before edge
	c.hb.Unlock()
	if !c.simNotify(true) {
		c.passThrough().Broadcast()
		return
	}
	AfterSync()
}

// ---------------------------------------------------------------- OnceFunc / OnceValue / OnceValues
// (same contract as the standard library's: f runs once; if it panicked, every call panics with that value)

func OnceFunc(f func()) func() {
	var (
		once  Once
		valid bool
		p     any
	)
	g := func() {
		defer func() {
			p = recover()
			if !valid {
				panic(p)
			}
		}()
		f()
		f = nil
		valid = true
	}
	return func() {
		once.Do(g)
		if !valid {
			panic(p)
		}
	}
}

func OnceValue[T any](f func() T) func() T {
	var (
		once   Once
		valid  bool
		p      any
		result T
	)
	g := func() {
		defer func() {
			p = recover()
			if !valid {
				panic(p)
			}
		}()
		result = f()
		f = nil
		valid = true
	}
	return func() T {
		once.Do(g)
		if !valid {
			panic(p)
		}
		return result
	}
}

func OnceValues[T1, T2 any](f func() (T1, T2)) func() (T1, T2) {
	var (
		once  Once
		valid bool
		p     any
		r1    T1
		r2    T2
	)
	g := func() {
		defer func() {
			p = recover()
			if !valid {
				panic(p)
			}
		}()
		r1, r2 = f()
		f = nil
		valid = true
	}
	return func() (T1, T2) {
		once.Do(g)
		if !valid {
			panic(p)
		}
		return r1, r2
	}
}
