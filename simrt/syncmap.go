package zzsim

import "sync"

// Map stands in for sync.Map in the instrumented library: every operation is a
// scheduling point, the operation itself is executed on the real sync.Map (so
// ThreadSanitizer sees its genuine synchronisation), and Range visits the
// entries in an order decided by the simulator instead of the runtime's.
type Map struct {
	inner sync.Map
}

//go:norace
func mapYield() {
	if s := S; s != nil {
		s.yield(0, false)
	}
}

func (m *Map) Load(key any) (any, bool) { mapYield(); return m.inner.Load(key) }
func (m *Map) Store(key, value any)     { mapYield(); m.inner.Store(key, value) }
func (m *Map) LoadOrStore(key, value any) (any, bool) {
	mapYield()
	return m.inner.LoadOrStore(key, value)
}
func (m *Map) LoadAndDelete(key any) (any, bool) { mapYield(); return m.inner.LoadAndDelete(key) }
func (m *Map) Delete(key any)                    { mapYield(); m.inner.Delete(key) }
func (m *Map) Swap(key, value any) (any, bool)   { mapYield(); return m.inner.Swap(key, value) }
func (m *Map) CompareAndSwap(key, old, new any) bool {
	mapYield()
	return m.inner.CompareAndSwap(key, old, new)
}
func (m *Map) CompareAndDelete(key, old any) bool {
	mapYield()
	return m.inner.CompareAndDelete(key, old)
}
func (m *Map) Clear() { mapYield(); m.inner.Clear() }

func (m *Map) Range(f func(key, value any) bool) {
	mapYield()
	if !Active() {
		m.inner.Range(f)
		return
	}
	var keys []any
	m.inner.Range(func(k, _ any) bool {
		keys = append(keys, k)
		return true
	})
	ties := canonicalSort(keys)
	policy, arg := mapDecision(len(keys))
	permuted := applyPolicy(keys, policy, arg)
	noteMapIter(0, len(keys), permuted, ties)
	for _, k := range keys {
		v, ok := m.inner.Load(k)
		if !ok {
			continue
		}
		if !f(k, v) {
			return
		}
	}
}
