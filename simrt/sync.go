package zzsim

import (
	"fmt"
	"sync"
	"time"
)

// The wrappers keep the *model* state (who holds what, who waits) in plain
// fields manipulated by //go:norace code, and call the real primitive only
// when the model says the call cannot block. The program's synchronisation is
// therefore executed for real (TSan sees the genuine happens-before edges), in
// the simulated order.

// ---------------------------------------------------------------- Mutex

type Mutex struct {
	inner  sync.Mutex
	locked bool
	owner  int
}

//go:norace
func (m *Mutex) simLock() bool {
	s := S
	if s == nil {
		return false
	}
	s.yield(0, false)
	first := true
	for m.locked {
		if first {
			s.mutexCont++
			first = false
		}
		cur := s.cur
		cur.state = stBlocked
		cur.blockedOn = fmt.Sprintf("Mutex.Lock(%p) held by task %d", m, m.owner)
		cur.since = s.steps
		s.record("block", cur.id, m.owner, 0, "mutex")
		s.block(0)
	}
	m.locked = true
	m.owner = s.cur.id
	return true
}

//go:norace
func (m *Mutex) simUnlock() {
	s := S
	if s == nil {
		return
	}
	m.locked = false
	m.owner = -1
	s.wakeBlockedOn("Mutex")
}

func (m *Mutex) Lock() {
	m.simLock()
	m.inner.Lock()
}

func (m *Mutex) Unlock() {
	m.inner.Unlock()
	m.simUnlock()
	AfterSync()
}

func (m *Mutex) TryLock() bool {
	if m.simTry() {
		return m.inner.TryLock()
	}
	return false
}

//go:norace
func (m *Mutex) simTry() bool {
	s := S
	if s == nil {
		return true
	}
	s.yield(0, false)
	if m.locked {
		return false
	}
	m.locked = true
	m.owner = s.cur.id
	return true
}

// wakeBlockedOn makes every blocked task runnable again; each re-checks its
// own condition (barging semantics: who wins is the scheduler's choice).
//
//go:norace
func (s *simState) wakeBlockedOn(kind string) {
	for _, t := range s.tasks {
		if t.state == stBlocked {
			t.state = stRunnable
			s.record("wake", s.cur.id, t.id, 0, kind)
		}
	}
}

// wakeParkedSelects makes tasks parked in a select runnable again (a receiver
// that has just started waiting may make one of their send clauses ready);
// tasks parked on anything else are left alone.
//
//go:norace
func (s *simState) wakeParkedSelects() {
	for _, t := range s.tasks {
		if t.state == stBlocked && len(t.blockedOn) >= 6 && t.blockedOn[:6] == "select" {
			t.state = stRunnable
			s.record("wake", s.cur.id, t.id, 0, "select")
		}
	}
}

// ---------------------------------------------------------------- RWMutex

type RWMutex struct {
	inner       sync.RWMutex
	readers     int
	writer      bool
	writerOwner int
	writersWait int
}

//go:norace
func (m *RWMutex) simLock() {
	s := S
	if s == nil {
		return
	}
	s.yield(0, false)
	waiting := false
	for m.writer || m.readers > 0 {
		if !waiting {
			waiting = true
			m.writersWait++
			s.mutexCont++
		}
		cur := s.cur
		cur.state = stBlocked
		cur.blockedOn = fmt.Sprintf("RWMutex.Lock(%p) readers=%d writer=%v", m, m.readers, m.writer)
		cur.since = s.steps
		s.record("block", cur.id, -1, 0, "rwmutex.w")
		s.block(0)
	}
	if waiting {
		m.writersWait--
	}
	m.writer = true
	m.writerOwner = s.cur.id
}

//go:norace
func (m *RWMutex) simUnlock() {
	s := S
	if s == nil {
		return
	}
	m.writer = false
	s.wakeBlockedOn("RWMutex")
}

//go:norace
func (m *RWMutex) simRLock() {
	s := S
	if s == nil {
		return
	}
	s.yield(0, false)
	// Go's RWMutex gives waiting writers preference over new readers.
	for m.writer || m.writersWait > 0 {
		cur := s.cur
		cur.state = stBlocked
		cur.blockedOn = fmt.Sprintf("RWMutex.RLock(%p) writer=%v writersWaiting=%d", m, m.writer, m.writersWait)
		cur.since = s.steps
		s.mutexCont++
		s.record("block", cur.id, -1, 0, "rwmutex.r")
		s.block(0)
	}
	m.readers++
}

//go:norace
func (m *RWMutex) simRUnlock() {
	s := S
	if s == nil {
		return
	}
	m.readers--
	s.wakeBlockedOn("RWMutex")
}

func (m *RWMutex) Lock()    { m.simLock(); m.inner.Lock() }
func (m *RWMutex) Unlock()  { m.inner.Unlock(); m.simUnlock(); AfterSync() }
func (m *RWMutex) RLock()   { m.simRLock(); m.inner.RLock() }
func (m *RWMutex) RUnlock() { m.inner.RUnlock(); m.simRUnlock(); AfterSync() }

// RLocker mirrors sync.RWMutex.RLocker.
func (m *RWMutex) RLocker() sync.Locker { return (*rlocker)(m) }

type rlocker RWMutex

func (r *rlocker) Lock()   { (*RWMutex)(r).RLock() }
func (r *rlocker) Unlock() { (*RWMutex)(r).RUnlock() }

// ---------------------------------------------------------------- WaitGroup

type WaitGroup struct {
	inner sync.WaitGroup
	n     int
}

//go:norace
func (w *WaitGroup) simAdd(delta int) {
	s := S
	if s == nil {
		return
	}
	s.yield(0, false)
	w.n += delta
	if w.n <= 0 {
		s.wakeBlockedOn("WaitGroup")
	}
}

//go:norace
func (w *WaitGroup) simWait() {
	s := S
	if s == nil {
		return
	}
	s.yield(0, false)
	for w.n > 0 {
		cur := s.cur
		cur.state = stBlocked
		cur.blockedOn = fmt.Sprintf("WaitGroup.Wait(%p) counter=%d", w, w.n)
		cur.since = s.steps
		s.record("block", cur.id, -1, 0, "waitgroup")
		s.block(0)
	}
}

func (w *WaitGroup) Add(delta int) {
	w.simAdd(delta)
	w.inner.Add(delta) // panics on a negative counter exactly like the real one
	if delta < 0 {
		AfterSync()
	}
}

func (w *WaitGroup) Done() { w.Add(-1) }

func (w *WaitGroup) Wait() {
	w.simWait()
	w.inner.Wait()
}

// Go mirrors (*sync.WaitGroup).Go of newer toolchains.
func (w *WaitGroup) Go(f func()) {
	w.Add(1)
	spawn(0, func() {
		defer w.Done()
		f()
	})
}

// ---------------------------------------------------------------- Once

type Once struct {
	mu   Mutex
	done bool
}

func (o *Once) Do(f func()) {
	o.mu.Lock()
	defer o.mu.Unlock()
	if !o.done {
		defer func() { o.done = true }()
		f()
	}
}

// ---------------------------------------------------------------- clock

var epoch = time.Date(2030, 1, 1, 0, 0, 0, 0, time.UTC)

//go:norace
func nowNs() (int64, bool) {
	s := S
	if s == nil {
		return 0, false
	}
	return s.now, true
}

// Now is the simulated wall clock.
func Now() time.Time {
	ns, ok := nowNs()
	if !ok {
		return time.Now()
	}
	return epoch.Add(time.Duration(ns))
}

func Since(t time.Time) time.Duration { return Now().Sub(t) }
func Until(t time.Time) time.Duration { return t.Sub(Now()) }

// NowNs returns simulated nanoseconds since the start of the run.
func NowNs() int64 { ns, _ := nowNs(); return ns }

// Sleep parks the task for d simulated nanoseconds.
func Sleep(d time.Duration) {
	if !simSleep(int64(d)) {
		time.Sleep(d)
	}
}

//go:norace
func simSleep(d int64) bool {
	s := S
	if s == nil {
		return false
	}
	if d <= 0 {
		s.yield(0, false)
		return true
	}
	// sleeping is a step: a task polling with Sleep in a loop that never ends runs into the step budget
	s.steps++
	if s.steps > s.cfg.StepBudget {
		s.abort("step_budget", 0)
		return true
	}
	cur := s.cur
	cur.state = stSleeping
	cur.wakeAt = s.now + d
	s.record("sleep", cur.id, -1, 0, "")
	next := s.schedAway()
	if next == cur {
		return true
	}
	// schedAway never returns nil here: cur itself is sleeping
	s.handoff(cur, next, 0)
	return true
}
