package zzsim

import (
	"fmt"
	"iter"
	"reflect"
	"sort"
)

// MapIter replaces `range m` over a map in the instrumented library. The Go
// runtime randomises map iteration order per range statement; here the order
// is a decision of the simulator: keys are put in a canonical content-based
// order and then permuted according to the run's map policy.
func MapIter[K comparable, V any](site int32, m map[K]V) iter.Seq2[K, V] {
	return func(yield func(K, V) bool) {
		if !Active() {
			for k, v := range m {
				if !yield(k, v) {
					return
				}
			}
			return
		}
		n := len(m) // a map read, visible to the race detector at this frame
		if n == 0 {
			noteMapIter(site, 0, false, 0)
			return
		}
		keys := make([]K, 0, n)
		for k := range m {
			keys = append(keys, k)
		}
		ties := canonicalSort(keys)
		policy, arg := mapDecision(len(keys))
		permuted := applyPolicy(keys, policy, arg)
		noteMapIter(site, len(keys), permuted, ties)
		for _, k := range keys {
			v, ok := m[k]
			if !ok {
				continue // deleted during iteration: the spec allows skipping it
			}
			if !yield(k, v) {
				return
			}
		}
	}
}

//go:norace
func noteMapIter(site int32, n int, permuted bool, ties int) {
	s := S
	if s == nil {
		return
	}
	s.mapIters++
	if permuted {
		s.mapPerm++
	}
	s.mapTies += int64(ties)
	if n > 1 {
		s.mix(0x6d6170, uint64(uint32(site)), uint64(n))
	}
}

// mapDecision draws this call's permutation from the map PRNG.
//
//go:norace
func mapDecision(n int) (string, uint64) {
	s := S
	if s == nil {
		return "native", 0
	}
	switch s.cfg.MapPolicy {
	case "rotate":
		return "rotate", s.maprng.next()
	case "random":
		return "random", s.maprng.next()
	case "mixed":
		switch s.maprng.next() % 4 {
		case 0:
			return "sorted", 0
		case 1:
			return "reverse", 0
		case 2:
			return "rotate", s.maprng.next()
		default:
			return "random", s.maprng.next()
		}
	}
	return s.cfg.MapPolicy, 0
}

func applyPolicy[K any](keys []K, policy string, arg uint64) bool {
	n := len(keys)
	if n < 2 {
		return false
	}
	switch policy {
	case "reverse":
		for i, j := 0, n-1; i < j; i, j = i+1, j-1 {
			keys[i], keys[j] = keys[j], keys[i]
		}
		return true
	case "rotate":
		r := int(arg % uint64(n))
		if r == 0 {
			return false
		}
		tmp := make([]K, 0, n)
		tmp = append(tmp, keys[r:]...)
		tmp = append(tmp, keys[:r]...)
		copy(keys, tmp)
		return true
	case "random":
		rng := splitmix{arg}
		for i := n - 1; i > 0; i-- {
			j := int(rng.next() % uint64(i+1))
			keys[i], keys[j] = keys[j], keys[i]
		}
		return true
	}
	return false
}

// canonicalSort orders keys by content so that the base order does not depend
// on the runtime's hash seed or on addresses. Pointer keys are ordered by what
// they point to. Returns the number of adjacent ties (keys whose canonical
// text is equal: their relative order is then whatever the runtime produced,
// and the run is flagged so the driver does not demand bit-equal replays).
func canonicalSort[K comparable](keys []K) int {
	if len(keys) < 2 {
		return 0
	}
	switch ks := any(keys).(type) {
	case []string:
		sort.Strings(ks)
		return 0
	case []int:
		sort.Ints(ks)
		return 0
	case []float64:
		sort.Float64s(ks)
		return 0
	}
	type kv struct {
		text string
		idx  int
	}
	texts := make([]kv, len(keys))
	for i, k := range keys {
		texts[i] = kv{canonText(reflect.ValueOf(k), 0), i}
	}
	sort.SliceStable(texts, func(i, j int) bool { return texts[i].text < texts[j].text })
	out := make([]K, len(keys))
	ties := 0
	for i, t := range texts {
		out[i] = keys[t.idx]
		if i > 0 && texts[i-1].text == t.text {
			ties++
		}
	}
	copy(keys, out)
	return ties
}

func canonText(v reflect.Value, depth int) string {
	if !v.IsValid() {
		return "<nil>"
	}
	if depth > 6 {
		return "<deep>"
	}
	switch v.Kind() {
	case reflect.Pointer:
		if v.IsNil() {
			return "<nilptr>"
		}
		return "&" + canonText(v.Elem(), depth+1)
	case reflect.Interface:
		if v.IsNil() {
			return "<nil>"
		}
		return canonText(v.Elem(), depth+1)
	case reflect.Map:
		type e struct{ k, v string }
		es := make([]e, 0, v.Len())
		it := v.MapRange()
		for it.Next() {
			es = append(es, e{canonText(it.Key(), depth+1), canonText(it.Value(), depth+1)})
		}
		sort.Slice(es, func(i, j int) bool { return es[i].k < es[j].k })
		out := "map{"
		for _, x := range es {
			out += x.k + ":" + x.v + ","
		}
		return out + "}"
	case reflect.Slice, reflect.Array:
		out := "["
		for i := 0; i < v.Len(); i++ {
			out += canonText(v.Index(i), depth+1) + ","
		}
		return out + "]"
	case reflect.String:
		return fmt.Sprintf("%q", v.String())
	case reflect.Func, reflect.Chan, reflect.UnsafePointer:
		return "<" + v.Kind().String() + ">"
	case reflect.Struct:
		out := v.Type().String() + "{"
		for i := 0; i < v.NumField(); i++ {
			out += canonText(v.Field(i), depth+1) + ","
		}
		return out + "}"
	default:
		if v.CanInterface() {
			return fmt.Sprintf("%T(%v)", v.Interface(), v.Interface())
		}
		return fmt.Sprintf("%s(%v)", v.Kind(), v)
	}
}
