//go:build race

package zzsim

import "runtime"

// RaceBuild reports whether the binary was built with -race.
const RaceBuild = true

//go:norace
func raceDisable() { runtime.RaceDisable() }

//go:norace
func raceEnable() { runtime.RaceEnable() }
