//go:build !race

package zzsim

// RaceBuild reports whether the binary was built with -race.
const RaceBuild = false

func raceDisable() {}
func raceEnable()  {}
