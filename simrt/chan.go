package zzsim

import (
	"fmt"
	"time"
)

// Chan stands in for a Go channel in the instrumented library. The model state
// (how many values are buffered, whether it is closed, who waits) lives in
// plain fields manipulated by //go:norace code; the values themselves travel
// through a real channel that is only operated when the model says the
// operation cannot block, so ThreadSanitizer sees the genuine send->receive
// happens-before edge while the order of events is the simulator's decision.
//
// Model: a buffered channel of capacity n holds at most n values. An
// unbuffered channel is modelled as a one-slot hand-over: the sender deposits
// its value and stays parked until a receiver has taken it (a send completes
// no earlier than the matching receive, as in Go).
type Chan[T any] struct {
	raw    chan T // used only while no simulation is active
	inner  chan T // capacity max(cap,1): never blocks when operated by the model
	capa   int
	count  int
	closed bool
	taken  int64 // number of values taken so far (unbuffered hand-over acknowledgement)
	put    int64 // number of values deposited so far
	recvW  int   // receivers currently parked
}

func MakeChan[T any](n int) *Chan[T] {
	in := n
	if in < 1 {
		in = 1
	}
	return &Chan[T]{raw: make(chan T, n), inner: make(chan T, in), capa: n}
}

//go:norace
func chanPark(what string, c any) {
	s := S
	cur := s.cur
	cur.state = stBlocked
	cur.blockedOn = fmt.Sprintf("%s(%p)", what, c)
	cur.since = s.steps
	s.record("block", cur.id, -1, 0, "chan")
	s.block(0)
}

//go:norace
func chanParkForever(what string) {
	s := S
	for {
		cur := s.cur
		cur.state = stBlocked
		cur.blockedOn = what + " on a nil channel"
		cur.since = s.steps
		s.record("block", cur.id, -1, 0, "chan.nil")
		s.block(0)
	}
}

// simSendBegin blocks (in the model) until the value can be deposited.
//
//go:norace
func (c *Chan[T]) simSendBegin() {
	s := S
	s.yield(0, false)
	if c == nil {
		chanParkForever("chan send")
	}
	for !c.closed && c.full() {
		chanPark("chan send", c)
	}
	if c.closed {
		panic("send on closed channel")
	}
	c.count++
	c.put++
}

//go:norace
func (c *Chan[T]) full() bool {
	if c.capa == 0 {
		return c.count >= 1
	}
	return c.count >= c.capa
}

// simSendEnd: an unbuffered send completes only after its value was taken.
//
//go:norace
func (c *Chan[T]) simSendEnd() {
	s := S
	s.wakeBlockedOn("chan")
	if c.capa != 0 {
		return
	}
	mine := c.put
	for c.taken < mine {
		if c.closed && c.count > 0 && c.taken < mine {
			// closed while a sender was parked: Go panics in the sender
			panic("send on closed channel")
		}
		chanPark("chan send (waiting for a receiver)", c)
	}
}

func (c *Chan[T]) Send(v T) {
	if S == nil {
		c.raw <- v
		return
	}
	c.simSendBegin()
	c.inner <- v
	c.simSendEnd()
	AfterSync()
}

// simRecvBegin blocks until a value is available or the channel is closed;
// reports whether a value is to be taken.
//
//go:norace
func (c *Chan[T]) simRecvBegin() bool {
	s := S
	s.yield(0, false)
	if c == nil {
		chanParkForever("chan receive")
	}
	for c.count == 0 && !c.closed {
		c.recvW++
		s.wakeParkedSelects() // a parked select with a send clause on this channel may now proceed
		chanPark("chan receive", c)
		c.recvW--
	}
	return c.count > 0
}

//go:norace
func (c *Chan[T]) simRecvEnd() {
	c.count--
	c.taken++
	S.wakeBlockedOn("chan")
}

func (c *Chan[T]) Recv2() (T, bool) {
	if S == nil {
		v, ok := <-c.raw
		return v, ok
	}
	if c.simRecvBegin() {
		v := <-c.inner
		c.simRecvEnd()
		AfterSync()
		return v, true
	}
	var zero T
	return zero, false
}

func (c *Chan[T]) Recv() T {
	v, _ := c.Recv2()
	return v
}

//go:norace
func (c *Chan[T]) simClose() {
	s := S
	s.yield(0, false)
	if c == nil {
		panic("close of nil channel")
	}
	if c.closed {
		panic("close of closed channel")
	}
	c.closed = true
	s.wakeBlockedOn("chan")
}

func (c *Chan[T]) Close() {
	if S == nil {
		close(c.raw)
		return
	}
	c.simClose()
	close(c.inner)
}

//go:norace
func (c *Chan[T]) Len() int {
	if c == nil {
		return 0
	}
	if S == nil {
		return len(c.raw)
	}
	if c.capa == 0 {
		return 0
	}
	return c.count
}

func (c *Chan[T]) Cap() int {
	if c == nil {
		return 0
	}
	return c.capa
}

// Iter is `for v := range ch`.
func (c *Chan[T]) Iter() func(yield func(T) bool) {
	return func(yield func(T) bool) {
		for {
			v, ok := c.Recv2()
			if !ok || !yield(v) {
				return
			}
		}
	}
}

// ---------------------------------------------------------------- select

// SelCase is one communication clause of a select statement.
type SelCase struct {
	ready func() bool // model: can proceed without blocking
	run   func()      // perform it (model + real operation)
	desc  string
}

// Sel is the outcome of Select: the index of the chosen clause (-1: default).
type Sel struct {
	I int
}

// RecvCase builds `case v, ok := <-c`; the received value is left in the
// channel's per-select slot and fetched by Got/Got2.
func (c *Chan[T]) RecvCase(slot *SelSlot[T]) SelCase {
	return SelCase{
		desc: "receive",
		ready: func() bool {
			return c != nil && (c.modelCount() > 0 || c.modelClosed())
		},
		run: func() {
			slot.V, slot.OK = c.recvReady()
		},
	}
}

// SendCase builds `case c <- v`.
func (c *Chan[T]) SendCase(v T) SelCase {
	return SelCase{
		desc: "send",
		ready: func() bool {
			if c == nil {
				return false
			}
			if c.modelClosed() {
				return true // proceeds by panicking, as in Go
			}
			if c.capa == 0 {
				return c.modelCount() == 0 && c.modelRecvWaiting() > 0
			}
			return c.modelCount() < c.capa
		},
		run: func() {
			c.sendReady(v)
		},
	}
}

// SelSlot receives the value of a select receive clause.
type SelSlot[T any] struct {
	V  T
	OK bool
}

//go:norace
func (c *Chan[T]) modelCount() int { return c.count }

//go:norace
func (c *Chan[T]) modelClosed() bool { return c.closed }

//go:norace
func (c *Chan[T]) modelRecvWaiting() int { return c.recvW }

// recvReady performs a receive the model has found ready.
func (c *Chan[T]) recvReady() (T, bool) {
	if c.modelCount() > 0 {
		v := <-c.inner
		c.simRecvEnd()
		return v, true
	}
	var zero T
	return zero, false
}

//go:norace
func (c *Chan[T]) simSendReadyBegin() {
	if c.closed {
		panic("send on closed channel")
	}
	c.count++
	c.put++
}

func (c *Chan[T]) sendReady(v T) {
	c.simSendReadyBegin()
	c.inner <- v
	c.simSendEnd()
}

// Select runs a select statement: among the ready clauses the simulator picks
// one (by its decision stream); with none ready it takes the default clause if
// there is one, else parks until some clause becomes ready.
func Select(hasDefault bool, cases ...SelCase) Sel {
	if S == nil {
		// no simulation active: poll (only reachable from package init / harness set-up)
		for {
			for i, c := range cases {
				if c.ready() {
					c.run()
					return Sel{I: i}
				}
			}
			if hasDefault {
				return Sel{I: -1}
			}
		}
	}
	selYield()
	for {
		var ready []int
		for i, c := range cases {
			if c.ready() {
				ready = append(ready, i)
			}
		}
		if len(ready) > 0 {
			pick := ready[selChoose(len(ready))]
			cases[pick].run()
			return Sel{I: pick}
		}
		if hasDefault {
			return Sel{I: -1}
		}
		selPark(len(cases))
	}
}

//go:norace
func selYield() { S.yield(0, false) }

//go:norace
func selChoose(n int) int {
	if n <= 1 {
		return 0
	}
	return int(S.rng.next() % uint64(n))
}

//go:norace
func selPark(n int) {
	s := S
	cur := s.cur
	cur.state = stBlocked
	cur.blockedOn = fmt.Sprintf("select with %d clause(s), none ready", n)
	cur.since = s.steps
	s.record("block", cur.id, -1, 0, "select")
	s.block(0)
}

// ---------------------------------------------------------------- timers on the simulated clock

// After mirrors time.After: a channel that receives the (simulated) time once d has elapsed.
func After(d time.Duration) *Chan[time.Time] {
	ch := MakeChan[time.Time](1)
	spawn(0, func() {
		Sleep(d)
		ch.Send(Now())
	})
	return ch
}

// AfterFunc mirrors time.AfterFunc for the fire-and-forget use: f runs on its own task after d.
// The returned stopper only reports whether the call had not fired yet; it cannot cancel it.
func AfterFunc(d time.Duration, f func()) *FuncTimer {
	t := &FuncTimer{}
	spawn(0, func() {
		Sleep(d)
		if t.markFired() {
			f()
		}
	})
	return t
}

type FuncTimer struct{ fired, stopped bool }

//go:norace
func (t *FuncTimer) markFired() bool {
	if t.stopped {
		return false
	}
	t.fired = true
	return true
}

// Stop prevents the function from running if it has not started yet.
//
//go:norace
func (t *FuncTimer) Stop() bool {
	if t.fired || t.stopped {
		return false
	}
	t.stopped = true
	return true
}
