package zzsim

import (
	"fmt"
	"testing"
	"time"
)

func cfgs() []Config {
	var out []Config
	for _, st := range []string{"np", "walk", "pct", "sync"} {
		for seed := uint64(1); seed <= 6; seed++ {
			out = append(out, Config{Strategy: st, Seed: seed, WalkP: 0.5, ChangePoints: []int64{int64(seed), int64(seed * 3)}, MapPolicy: "sorted"})
		}
	}
	return out
}

func TestChanUnbufferedHandOver(t *testing.T) {
	for _, c := range cfgs() {
		ch := MakeChan[int](0)
		var got []int
		sent := 0
		rep := Run(c, []string{"producer", "consumer"}, []func(){
			func() {
				for i := 0; i < 5; i++ {
					Y(0)
					ch.Send(i)
					sent++
				}
				ch.Close()
			},
			func() {
				for v := range ch.Iter() {
					Y(0)
					got = append(got, v)
				}
			},
		})
		if rep.Outcome != "ok" || fmt.Sprint(got) != "[0 1 2 3 4]" || sent != 5 {
			t.Fatalf("%+v: outcome %s got %v sent %d", c, rep.Outcome, got, sent)
		}
	}
}

func TestChanBufferedBlocksWhenFull(t *testing.T) {
	for _, c := range cfgs() {
		ch := MakeChan[int](1)
		rep := Run(c, []string{"a"}, []func(){func() {
			ch.Send(1)
			ch.Send(2) // nobody receives: must be reported as a deadlock, not hang
		}})
		if rep.Outcome != "deadlock" {
			t.Fatalf("%+v: outcome %s, want deadlock", c, rep.Outcome)
		}
	}
}

func TestSelectDefaultAndReady(t *testing.T) {
	for _, c := range cfgs() {
		ch := MakeChan[string](1)
		var first, second int
		var v string
		rep := Run(c, []string{"a"}, []func(){func() {
			var slot SelSlot[string]
			first = Select(true, ch.RecvCase(&slot)).I
			ch.Send("x")
			second = Select(true, ch.RecvCase(&slot)).I
			v = slot.V
		}})
		if rep.Outcome != "ok" || first != -1 || second != 0 || v != "x" {
			t.Fatalf("%+v: outcome %s first %d second %d v %q", c, rep.Outcome, first, second, v)
		}
	}
}

func TestSelectBlocksUntilSender(t *testing.T) {
	for _, c := range cfgs() {
		a, b := MakeChan[int](0), MakeChan[int](0)
		var idx, val int
		rep := Run(c, []string{"selector", "sender"}, []func(){
			func() {
				var sa, sb SelSlot[int]
				idx = Select(false, a.RecvCase(&sa), b.RecvCase(&sb)).I
				val = sb.V
			},
			func() {
				Y(0)
				b.Send(7)
			},
		})
		if rep.Outcome != "ok" || idx != 1 || val != 7 {
			t.Fatalf("%+v: outcome %s idx %d val %d", c, rep.Outcome, idx, val)
		}
	}
}

func TestSendOnClosedPanicsAndRecvOnClosedReturnsZero(t *testing.T) {
	ch := MakeChan[int](1)
	var v int
	ok := true
	panicked := ""
	rep := Run(Config{Strategy: "np", MapPolicy: "sorted"}, []string{"a"}, []func(){func() {
		ch.Close()
		v, ok = ch.Recv2()
		defer func() { panicked = fmt.Sprint(recover()) }()
		ch.Send(1)
	}})
	if rep.Outcome != "ok" || v != 0 || ok || panicked != "send on closed channel" {
		t.Fatalf("outcome %s v %d ok %v panicked %q", rep.Outcome, v, ok, panicked)
	}
}

// A spin-wait on a flag makes progress under every strategy (fairness bound).
func TestSpinWaitTerminates(t *testing.T) {
	for _, c := range cfgs() {
		flag := false
		n := 0
		rep := Run(c, []string{"spinner", "setter"}, []func(){
			func() {
				for !flag {
					Y(0)
					n++
				}
			},
			func() {
				Y(0)
				flag = true
			},
		})
		if rep.Outcome != "ok" {
			t.Fatalf("%+v: outcome %s after %d spins", c, rep.Outcome, n)
		}
	}
}

func TestSelectWithTimeout(t *testing.T) {
	for _, c := range cfgs() {
		work := MakeChan[int](0)
		which := 0
		rep := Run(c, []string{"waiter"}, []func(){func() {
			var w SelSlot[int]
			var tm SelSlot[time.Time]
			which = Select(false, work.RecvCase(&w), After(5*time.Second).RecvCase(&tm)).I
		}})
		if rep.Outcome != "ok" || which != 1 || rep.SimTimeNs < int64(5*time.Second) {
			t.Fatalf("%+v: outcome %s which %d simtime %d", c, rep.Outcome, which, rep.SimTimeNs)
		}
	}
}

// Two receivers parked on one channel must not keep waking each other: with a
// sleeping sender the clock has to advance, and with none it is a deadlock.
func TestTwoParkedReceivers(t *testing.T) {
	for _, c := range cfgs() {
		ch := MakeChan[int](1)
		got := 0
		rep := Run(c, []string{"r1", "r2", "sender"}, []func(){
			func() { got += ch.Recv() },
			func() { got += ch.Recv() },
			func() {
				Sleep(time.Second)
				ch.Send(1)
				Sleep(time.Second)
				ch.Send(2)
			},
		})
		if rep.Outcome != "ok" || got != 3 {
			t.Fatalf("%+v: outcome %s got %d", c, rep.Outcome, got)
		}
		rep = Run(c, []string{"r1", "r2"}, []func(){
			func() { ch.Recv() },
			func() { ch.Recv() },
		})
		if rep.Outcome != "deadlock" {
			t.Fatalf("%+v: outcome %s, want deadlock", c, rep.Outcome)
		}
	}
}

// A task that polls with Sleep for something that never happens hits the step budget, not the wall clock.
func TestEndlessSleepPollingHitsStepBudget(t *testing.T) {
	c := Config{Strategy: "np", MapPolicy: "sorted", StepBudget: 20000}
	rep := Run(c, []string{"poller"}, []func(){func() {
		for {
			Sleep(time.Millisecond)
		}
	}})
	if rep.Outcome != "step_budget" {
		t.Fatalf("outcome %s, want step_budget", rep.Outcome)
	}
}
