// Package zzsim is the deterministic simulator runtime. It is copied into the
// instrumented scratch copy of the library as a sub-package; the rewritten
// library code calls into it at every statement (Y), goroutine spawn (GoN),
// sync primitive operation, map range (MapIter) and clock read.
//
// Exactly one task executes at any instant. Which one is always this
// scheduler's decision, derived from Config (one seed + explicit parameters).
//
// Race-detector notes: every function that touches scheduler state is
// //go:norace and uses no maps, so the bookkeeping is invisible to TSan. Task
// hand-offs (channel operations) happen between raceDisable()/raceEnable(), so
// they contribute no happens-before edges: TSan sees only the program's own
// synchronisation (real mutexes, wait groups and go statements executed by the
// wrappers), on an execution that is otherwise fully controlled.
package zzsim

import (
	"fmt"
	"runtime/debug"
	"sync"
)

type taskState int

const (
	stRunnable taskState = iota
	stBlocked
	stSleeping
	stDone
)

// Config is the complete description of one run's nondeterminism.
type Config struct {
	Strategy     string  `json:"strategy"`      // "np" | "walk" | "pct"
	Seed         uint64  `json:"seed"`          // PRNG seed for scheduling choices
	WalkP        float64 `json:"walk_p"`        // walk: probability of a switch at a contended yield
	ChangePoints []int64 `json:"change_points"` // pct: contended-yield indexes at which the running task is demoted
	MapPolicy    string  `json:"map_policy"`    // "sorted" | "reverse" | "rotate" | "random" | "native"
	MapSeed      uint64  `json:"map_seed"`
	StepBudget   int64   `json:"step_budget"`
	TraceLimit   int     `json:"trace_limit"` // max recorded switch events (hash always covers all)
}

// Event is one recorded scheduler decision (context switch or clock jump).
type Event struct {
	Step int64  `json:"step"`
	Kind string `json:"kind"` // "switch" "spawn" "exit" "block" "wake" "clock" "map"
	From int    `json:"from"`
	To   int    `json:"to"`
	Site int32  `json:"site"`
	Info string `json:"info,omitempty"`
}

// PanicInfo describes a panic that unwound to the top of a task.
type PanicInfo struct {
	Task   int    `json:"task"`
	Name   string `json:"name"`
	Client bool   `json:"client"`
	Value  string `json:"value"`
	Stack  string `json:"stack"`
}

// TaskInfo is the final state of one task.
type TaskInfo struct {
	ID        int    `json:"id"`
	Name      string `json:"name"`
	Client    bool   `json:"client"`
	State     string `json:"state"`
	BlockedOn string `json:"blocked_on,omitempty"`
	Since     int64  `json:"since,omitempty"`
}

// Report is what a run leaves behind.
type Report struct {
	Outcome        string      `json:"outcome"` // "ok" | "deadlock" | "step_budget"
	Steps          int64       `json:"steps"`
	Contended      int64       `json:"contended"`
	Switches       int64       `json:"switches"`
	Preemptions    int64       `json:"preemptions"`
	Spawns         int64       `json:"spawns"`
	MaxLive        int         `json:"max_live"`
	MutexContended int64       `json:"mutex_contended"`
	MapIters       int64       `json:"map_iters"`
	MapPermuted    int64       `json:"map_permuted"`
	MapTies        int64       `json:"map_ties"`
	ClockJumps     int64       `json:"clock_jumps"`
	SimTimeNs      int64       `json:"sim_time_ns"`
	TraceHash      string      `json:"trace_hash"`
	InterleaveHash string      `json:"interleave_hash"`
	Events         []Event     `json:"events,omitempty"`
	Panics         []PanicInfo `json:"panics,omitempty"`
	Tasks          []TaskInfo  `json:"tasks"`
}

type Task struct {
	id        int
	name      string
	client    bool
	wake      chan struct{}
	state     taskState
	wakeAt    int64
	prio      int64
	blockedOn string
	since     int64
	fn        func()
}

type simState struct {
	cfg        Config
	tasks      []*Task
	cur        *Task
	now        int64
	steps      int64
	contended  int64
	switches   int64
	preempt    int64
	spawns     int64
	maxLive    int
	mutexCont  int64
	mapIters   int64
	mapPerm    int64
	mapTies    int64
	clockJmp   int64
	rng        splitmix
	maprng     splitmix
	streakTask int
	streak     int64
	nextCP     int
	lowPrio    int64
	hash       uint64
	ihash      uint64
	events     []Event
	panics     []PanicInfo
	outcome    string
	finished   bool
	doneCh     chan struct{}
	exitWG     sync.WaitGroup
}

// S is the active simulation, nil when none is running (pass-through mode).
var S *simState

//go:norace
func active() *simState { return S }

// Active reports whether a simulation is running.
//
//go:norace
func Active() bool { return S != nil }

// CurrentTask returns the id of the running task (-1 outside a simulation).
//
//go:norace
func CurrentTask() int {
	s := S
	if s == nil || s.cur == nil {
		return -1
	}
	return s.cur.id
}

// Steps returns the number of yields executed so far in this run.
//
//go:norace
func Steps() int64 {
	s := S
	if s == nil {
		return 0
	}
	return s.steps
}

//go:norace
func (s *simState) mix(a, b, c uint64) {
	h := s.hash
	h = (h ^ a) * 1099511628211
	h = (h ^ b) * 1099511628211
	h = (h ^ c) * 1099511628211
	s.hash = h
}

//go:norace
func (s *simState) record(kind string, from, to int, site int32, info string) {
	var k uint64
	for i := 0; i < len(kind); i++ {
		k = k*131 + uint64(kind[i])
	}
	s.mix(k, uint64(int64(from))<<32|uint64(uint32(to)), uint64(s.steps)<<20|uint64(uint32(site))&0xfffff)
	if kind == "switch" {
		// interleaving fingerprint: the sequence of (task, site) at context switches,
		// independent of step counts
		h := s.ihash
		h = (h ^ uint64(uint32(to))) * 1099511628211
		h = (h ^ uint64(uint32(site))) * 1099511628211
		s.ihash = h
	}
	if len(s.events) < s.cfg.TraceLimit {
		s.events = append(s.events, Event{Step: s.steps, Kind: kind, From: from, To: to, Site: site, Info: info})
	}
}

//go:norace
func (s *simState) runnableCount() int {
	n := 0
	for _, t := range s.tasks {
		if t.state == stRunnable {
			n++
		}
	}
	return n
}

//go:norace
func (s *simState) liveCount() int {
	n := 0
	for _, t := range s.tasks {
		if t.state != stDone {
			n++
		}
	}
	return n
}

// pickNext chooses the task to run among runnable tasks when the current task
// cannot continue (blocked, exited) — or for pct, whenever asked.
//
//go:norace
func (s *simState) pickNext(exclude *Task) *Task {
	var best *Task
	switch s.cfg.Strategy {
	case "pct":
		for _, t := range s.tasks {
			if t.state != stRunnable || t == exclude {
				continue
			}
			if best == nil || t.prio > best.prio {
				best = t
			}
		}
		return best
	default:
		n := 0
		for _, t := range s.tasks {
			if t.state == stRunnable && t != exclude {
				n++
			}
		}
		if n == 0 {
			return nil
		}
		k := int(s.rng.next() % uint64(n))
		for _, t := range s.tasks {
			if t.state == stRunnable && t != exclude {
				if k == 0 {
					return t
				}
				k--
			}
		}
	}
	return nil
}

// handoff transfers control from the calling task (cur) to next and parks the
// caller until it is scheduled again.
//
//go:norace
func (s *simState) handoff(cur, next *Task, site int32) {
	s.switches++
	s.record("switch", cur.id, next.id, site, "")
	s.cur = next
	raceDisable()
	next.wake <- struct{}{}
	<-cur.wake
	raceEnable()
}

// fairnessSlice is the number of consecutive contended yields one task may take before it is switched out.
const fairnessSlice = 50000

// Y is a yield point; the rewriter inserts one before every statement.
//
//go:norace
func Y(site int32) {
	s := S
	if s == nil {
		return
	}
	s.yield(site, false)
}

//go:norace
func (s *simState) yield(site int32, forceDecision bool) {
	cur := s.cur
	s.steps++
	if s.steps > s.cfg.StepBudget {
		s.abort("step_budget", site)
		return
	}
	if s.runnableCount() < 2 {
		s.streak = 0
		return
	}
	s.contended++
	// fairness: the Go scheduler is preemptive, so a task that spins (e.g. on an atomic flag or with
	// runtime.Gosched) while others are runnable does not keep the processor for ever. After a long
	// uninterrupted streak the task is switched out under every strategy; without this a spin-wait
	// would exhaust the step budget under non-preemptive strategies and be misreported as a livelock.
	if s.streakTask != cur.id {
		s.streakTask, s.streak = cur.id, 0
	}
	s.streak++
	if s.streak > fairnessSlice {
		s.streak = 0
		if s.cfg.Strategy == "pct" {
			// demote the spinner, otherwise it would be switched straight back in
			s.lowPrio--
			cur.prio = s.lowPrio
		}
		if next := s.pickNext(cur); next != nil {
			s.record("fair", cur.id, next.id, site, "")
			s.handoff(cur, next, site)
			return
		}
	}
	switch s.cfg.Strategy {
	case "pct":
		if s.nextCP < len(s.cfg.ChangePoints) && s.contended >= s.cfg.ChangePoints[s.nextCP] {
			s.nextCP++
			s.lowPrio--
			cur.prio = s.lowPrio
		}
		next := s.pickNext(nil)
		if next != nil && next != cur {
			s.preempt++
			s.handoff(cur, next, site)
		}
	case "walk":
		if s.rng.float() < s.cfg.WalkP {
			next := s.pickNext(cur)
			if next != nil {
				s.preempt++
				s.handoff(cur, next, site)
			}
		}
	case "sync":
		// concentrate preemptions around synchronisation operations (site 0: lock, unlock, Add/Done, Wait,
		// channel operations, sync.Map operations): most ordering bugs live within a statement or two of one
		p := 0.02
		if site == 0 {
			p = 0.5
		}
		if s.rng.float() < p {
			next := s.pickNext(cur)
			if next != nil {
				s.preempt++
				s.handoff(cur, next, site)
			}
		}
	default: // "np": never preempt at a plain yield
	}
}

// AfterSync is a scheduling point right after a synchronisation operation
// completed (unlock, Done, send, receive, close).
//
//go:norace
func AfterSync() {
	if s := S; s != nil {
		s.yield(0, false)
	}
}

// abort ends the run abnormally: the calling task is parked forever and the
// controller is released. The process is not reusable afterwards.
//
//go:norace
func (s *simState) abort(outcome string, site int32) {
	if !s.finished {
		s.finished = true
		s.outcome = outcome
		s.record("abort", s.cur.id, -1, site, outcome)
		s.doneCh <- struct{}{}
	}
	raceDisable()
	select {}
}

// block parks the current task (already marked blocked/sleeping by the
// caller) and runs something else; returns when the task is scheduled again.
//
//go:norace
func (s *simState) block(site int32) {
	cur := s.cur
	// blocking counts as a step, so that tasks that keep waking each other without making progress run into the
	// step budget (reported as such) instead of spinning until the wall-clock watchdog
	s.steps++
	if s.steps > s.cfg.StepBudget {
		s.abort("step_budget", site)
		return
	}
	next := s.schedAway()
	if next == nil {
		// nothing can run: deadlock (abort never returns)
		s.abort("deadlock", site)
		return
	}
	s.handoff(cur, next, site)
}

// schedAway finds the next task to run when the current one cannot; it
// advances the simulated clock when only sleepers remain.
//
//go:norace
func (s *simState) schedAway() *Task {
	for {
		next := s.pickNext(nil)
		if next != nil {
			return next
		}
		// nobody runnable: wake the earliest sleeper(s)
		var first *Task
		for _, t := range s.tasks {
			if t.state == stSleeping && (first == nil || t.wakeAt < first.wakeAt) {
				first = t
			}
		}
		if first == nil {
			return nil
		}
		if first.wakeAt > s.now {
			s.now = first.wakeAt
			s.clockJmp++
		}
		for _, t := range s.tasks {
			if t.state == stSleeping && t.wakeAt <= s.now {
				t.state = stRunnable
				s.record("wake", -1, t.id, 0, "clock")
			}
		}
	}
}

//go:norace
func (s *simState) newTask(name string, client bool, fn func()) *Task {
	t := &Task{id: len(s.tasks), name: name, client: client, wake: make(chan struct{}, 1), state: stRunnable, fn: fn}
	t.prio = int64(s.rng.next()%1000000) + 1000
	s.tasks = append(s.tasks, t)
	if n := s.liveCount(); n > s.maxLive {
		s.maxLive = n
	}
	return t
}

// start launches the real goroutine backing t. Called on the spawner's
// goroutine so the real `go` edge is the program's own.
func (s *simState) start(t *Task) {
	s.exitWG.Add(1)
	go func() {
		parkUntilScheduled(t)
		defer func() {
			r := recover()
			var stack string
			if r != nil {
				stack = string(debug.Stack())
			}
			s.taskExit(t, r, stack)
			s.exitWG.Done()
		}()
		t.fn()
	}()
}

//go:norace
func parkUntilScheduled(t *Task) {
	raceDisable()
	<-t.wake
	raceEnable()
}

//go:norace
func (s *simState) taskExit(t *Task, r any, stack string) {
	if r != nil {
		s.panics = append(s.panics, PanicInfo{Task: t.id, Name: t.name, Client: t.client, Value: safeSprint(r), Stack: stack})
	}
	t.state = stDone
	s.record("exit", t.id, -1, 0, "")
	next := s.schedAway()
	if next != nil {
		s.switches++
		s.record("switch", t.id, next.id, 0, "exit")
		s.cur = next
		raceDisable()
		next.wake <- struct{}{}
		raceEnable()
		return
	}
	// nothing runnable or sleeping
	if !s.finished {
		s.finished = true
		if s.liveCount() > 0 {
			s.outcome = "deadlock"
		} else {
			s.outcome = "ok"
		}
		s.doneCh <- struct{}{}
	}
}

func safeSprint(r any) (out string) {
	defer func() {
		if recover() != nil {
			out = "<unprintable panic value>"
		}
	}()
	if e, ok := r.(error); ok {
		return fmt.Sprintf("%T: %s", r, e.Error())
	}
	return fmt.Sprintf("%T: %v", r, r)
}

// spawn creates a library task (from a rewritten `go` statement).
func spawn(site int32, fn func()) {
	s := active()
	if s == nil {
		go fn()
		return
	}
	t := s.spawnReg(site, fn)
	s.start(t)
	s.afterSpawn(t, site)
}

//go:norace
func (s *simState) spawnReg(site int32, fn func()) *Task {
	s.spawns++
	t := s.newTask(fmt.Sprintf("go@%s", SiteName(site)), false, fn)
	s.record("spawn", s.cur.id, t.id, site, "")
	return t
}

//go:norace
func (s *simState) afterSpawn(t *Task, site int32) {
	s.yield(site, true)
}

func Go0(site int32, f func())                         { spawn(site, f) }
func Go1[A any](site int32, f func(A), a A)            { spawn(site, func() { f(a) }) }
func Go2[A, B any](site int32, f func(A, B), a A, b B) { spawn(site, func() { f(a, b) }) }
func Go3[A, B, C any](site int32, f func(A, B, C), a A, b B, c C) {
	spawn(site, func() { f(a, b, c) })
}
func Go4[A, B, C, D any](site int32, f func(A, B, C, D), a A, b B, c C, d D) {
	spawn(site, func() { f(a, b, c, d) })
}
func Go5[A, B, C, D, E any](site int32, f func(A, B, C, D, E), a A, b B, c C, d D, e E) {
	spawn(site, func() { f(a, b, c, d, e) })
}

// Run executes the client functions as simulated tasks and returns the report.
// It must be called from a goroutine that is not itself a task.
func Run(cfg Config, names []string, clients []func()) *Report {
	if cfg.StepBudget <= 0 {
		cfg.StepBudget = 5000000
	}
	if cfg.Strategy == "" {
		cfg.Strategy = "np"
	}
	if cfg.MapPolicy == "" {
		cfg.MapPolicy = "sorted"
	}
	s := &simState{cfg: cfg, doneCh: make(chan struct{}, 1), hash: 1469598103934665603, ihash: 1469598103934665603}
	s.rng = splitmix{cfg.Seed*2 + 1}
	s.maprng = splitmix{cfg.MapSeed*2 + 0x9e3779b97f4a7c15}
	initState(s, names, clients)
	for _, t := range s.tasks {
		s.start(t)
	}
	kick(s)
	<-s.doneCh
	if reportOutcome(s) == "ok" {
		s.exitWG.Wait()
	}
	rep := buildReport(s)
	clearState()
	return rep
}

//go:norace
func initState(s *simState, names []string, clients []func()) {
	for i, c := range clients {
		s.newTask(names[i], true, c)
	}
	S = s
}

//go:norace
func kick(s *simState) {
	if len(s.tasks) == 0 {
		s.finished = true
		s.outcome = "ok"
		s.doneCh <- struct{}{}
		return
	}
	first := s.pickNext(nil)
	s.cur = first
	s.record("switch", -1, first.id, 0, "start")
	raceDisable()
	first.wake <- struct{}{}
	raceEnable()
}

//go:norace
func reportOutcome(s *simState) string { return s.outcome }

//go:norace
func clearState() { S = nil }

//go:norace
func buildReport(s *simState) *Report {
	r := &Report{
		Outcome: s.outcome, Steps: s.steps, Contended: s.contended, Switches: s.switches,
		Preemptions: s.preempt, Spawns: s.spawns, MaxLive: s.maxLive, MutexContended: s.mutexCont,
		MapIters: s.mapIters, MapPermuted: s.mapPerm, MapTies: s.mapTies, ClockJumps: s.clockJmp,
		SimTimeNs: s.now, TraceHash: fmt.Sprintf("%016x", s.hash), InterleaveHash: fmt.Sprintf("%016x", s.ihash),
	}
	r.Events = append(r.Events, s.events...)
	r.Panics = append(r.Panics, s.panics...)
	for _, t := range s.tasks {
		ti := TaskInfo{ID: t.id, Name: t.name, Client: t.client}
		switch t.state {
		case stRunnable:
			ti.State = "runnable"
		case stBlocked:
			ti.State = "blocked"
			ti.BlockedOn = t.blockedOn
			ti.Since = t.since
		case stSleeping:
			ti.State = "sleeping"
		case stDone:
			ti.State = "done"
		}
		r.Tasks = append(r.Tasks, ti)
	}
	return r
}

// ---------------------------------------------------------------- PRNG

type splitmix struct{ x uint64 }

//go:norace
func (r *splitmix) next() uint64 {
	r.x += 0x9e3779b97f4a7c15
	z := r.x
	z = (z ^ (z >> 30)) * 0xbf58476d1ce4e5b9
	z = (z ^ (z >> 27)) * 0x94d049bb133111eb
	return z ^ (z >> 31)
}

//go:norace
func (r *splitmix) float() float64 { return float64(r.next()>>11) / float64(1<<53) }

// ---------------------------------------------------------------- sites

// Files is filled in by the generated file sites_gen.go in the scratch copy.
var Files []string

// SiteName renders a site id (fileIndex<<20 | line) as file:line.
func SiteName(site int32) string {
	fi := int(site >> 20)
	line := int(site & 0xfffff)
	if fi >= 0 && fi < len(Files) {
		return fmt.Sprintf("%s:%d", Files[fi], line)
	}
	return fmt.Sprintf("?%d:%d", fi, line)
}
