package zzsim

import (
	"testing"
)

// A producer/consumer over a Cond completes under every strategy; a consumer nobody signals is a deadlock.
func TestCondProducerConsumer(t *testing.T) {
	for _, cfg := range cfgs() {
		{
			var mu Mutex
			c := NewCond(&mu)
			queue := []int{}
			got := 0
			consumer := func() {
				for i := 0; i < 3; i++ {
					mu.Lock()
					for len(queue) == 0 {
						c.Wait()
					}
					got += queue[0]
					queue = queue[1:]
					mu.Unlock()
				}
			}
			producer := func() {
				for i := 1; i <= 3; i++ {
					Y(1)
					mu.Lock()
					queue = append(queue, i)
					mu.Unlock()
					c.Signal()
				}
			}
			rep := Run(cfg, []string{"consumer", "producer"}, []func(){consumer, producer})
			if rep.Outcome != "ok" || got != 6 {
				t.Fatalf("%+v: outcome %s got %d", cfg, rep.Outcome, got)
			}
		}
	}
}

func TestCondLostWakeupIsDeadlock(t *testing.T) {
	var mu Mutex
	c := NewCond(&mu)
	waiter := func() {
		mu.Lock()
		c.Wait()
		mu.Unlock()
	}
	rep := Run(cfgs()[0], []string{"waiter"}, []func(){waiter})
	if rep.Outcome != "deadlock" {
		t.Fatalf("outcome %s, want deadlock", rep.Outcome)
	}
}

func TestCondBroadcastAndOnceValue(t *testing.T) {
	var mu Mutex
	c := NewCond(&mu)
	ready := false
	woken := 0
	calls := 0
	ov := OnceValue(func() int { calls++; return 7 })
	w := func() {
		mu.Lock()
		for !ready {
			c.Wait()
		}
		woken += ov()
		mu.Unlock()
	}
	b := func() {
		Y(1)
		mu.Lock()
		ready = true
		mu.Unlock()
		c.Broadcast()
	}
	for _, cfg := range cfgs() {
		ready, woken, calls = false, 0, 0
		ov = OnceValue(func() int { calls++; return 7 })
		rep := Run(cfg, []string{"w1", "w2", "w3", "b"}, []func(){w, w, w, b})
		if rep.Outcome != "ok" || woken != 21 || calls != 1 {
			t.Fatalf("outcome %s woken %d calls %d", rep.Outcome, woken, calls)
		}
	}
}
