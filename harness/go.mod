module zzharness_src

go 1.23.0
