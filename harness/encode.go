//go:build verifsim

package main

import (
	"encoding/json"
	"fmt"
	"math"
	"reflect"
	"sort"

	casefmt "github.com/vedadiyan/genql/zzcase"
)

// encodeResult turns a result into canonical JSON, cycle-safely, recording
// every value that is not plain JSON-representable data as a leak.
func encodeResult(v any) (json.RawMessage, []casefmt.Leak, string) {
	e := &encoder{}
	tree := e.walk(v, "$", 0)
	b, err := json.Marshal(tree)
	if err != nil {
		b = []byte(`"<unencodable>"`)
	}
	jsonErr := ""
	if len(e.leaks) == 0 {
		// the raw result must also survive encoding/json itself
		if _, err := json.Marshal(v); err != nil {
			jsonErr = err.Error()
		}
	} else if e.cyclic {
		jsonErr = "cyclic"
	}
	return b, e.leaks, jsonErr
}

func encodeVars(m map[string]any) json.RawMessage {
	if m == nil {
		return nil
	}
	b, _, _ := encodeResult(m)
	return b
}

type encoder struct {
	leaks  []casefmt.Leak
	path   []uintptr
	cyclic bool
}

func (e *encoder) leak(path, typ string) {
	if len(e.leaks) < 50 {
		e.leaks = append(e.leaks, casefmt.Leak{Path: path, Type: typ})
	}
}

func (e *encoder) onPath(p uintptr) bool {
	for _, x := range e.path {
		if x == p {
			return true
		}
	}
	return false
}

func (e *encoder) walk(v any, path string, depth int) any {
	if depth > 64 {
		e.leak(path, "too-deep")
		return map[string]any{"$deep": true}
	}
	switch x := v.(type) {
	case nil:
		return nil
	case bool, string:
		return x
	case float64:
		if math.IsNaN(x) || math.IsInf(x, 0) {
			// not a JSON number
			e.leak(path, "non-finite number")
			return map[string]any{"$float": fmt.Sprint(x)}
		}
		return x
	case float32:
		return float64(x)
	case int:
		return float64(x)
	case int8:
		return float64(x)
	case int16:
		return float64(x)
	case int32:
		return float64(x)
	case int64:
		return float64(x)
	case uint:
		return float64(x)
	case uint8:
		return float64(x)
	case uint16:
		return float64(x)
	case uint32:
		return float64(x)
	case uint64:
		return float64(x)
	case map[string]any:
		p := reflect.ValueOf(x).Pointer()
		if p != 0 && e.onPath(p) {
			e.cyclic = true
			e.leak(path, "cycle")
			return map[string]any{"$cycle": true}
		}
		e.path = append(e.path, p)
		out := make(map[string]any, len(x))
		keys := make([]string, 0, len(x))
		for k := range x {
			keys = append(keys, k)
		}
		sort.Strings(keys)
		for _, k := range keys {
			if k == "<-" {
				e.leak(path+"."+k, "nav-key")
			}
			out[k] = e.walk(x[k], path+"."+k, depth+1)
		}
		e.path = e.path[:len(e.path)-1]
		return out
	case []map[string]any:
		// a Go-typed array of objects (it can only come from a Go-typed input): plain data
		out := make([]any, len(x))
		for i := range x {
			out[i] = e.walk(x[i], fmt.Sprintf("%s[%d]", path, i), depth+1)
		}
		return out
	case []any:
		p := reflect.ValueOf(x).Pointer()
		if len(x) > 0 && e.onPath(p) {
			e.cyclic = true
			e.leak(path, "cycle")
			return map[string]any{"$cycle": true}
		}
		if len(x) > 0 {
			e.path = append(e.path, p)
		}
		out := make([]any, len(x))
		for i := range x {
			out[i] = e.walk(x[i], fmt.Sprintf("%s[%d]", path, i), depth+1)
		}
		if len(x) > 0 {
			e.path = e.path[:len(e.path)-1]
		}
		return out
	}
	// anything else is an engine-internal or otherwise non-plain value
	rv := reflect.ValueOf(v)
	typ := rv.Type().String()
	e.leak(path, typ)
	switch rv.Kind() {
	case reflect.Pointer:
		if rv.IsNil() {
			return map[string]any{"$leak": typ, "$v": nil}
		}
		p := rv.Pointer()
		if e.onPath(p) {
			e.cyclic = true
			return map[string]any{"$leak": typ, "$cycle": true}
		}
		e.path = append(e.path, p)
		inner := e.walk(rv.Elem().Interface(), path+"*", depth+1)
		e.path = e.path[:len(e.path)-1]
		return map[string]any{"$leak": typ, "$v": inner}
	case reflect.Func:
		return map[string]any{"$leak": typ}
	case reflect.String:
		return map[string]any{"$leak": typ, "$v": rv.String()}
	case reflect.Bool:
		return map[string]any{"$leak": typ, "$v": rv.Bool()}
	case reflect.Map:
		out := map[string]any{}
		it := rv.MapRange()
		for it.Next() {
			out[fmt.Sprint(it.Key().Interface())] = e.walk(it.Value().Interface(), path+"."+fmt.Sprint(it.Key().Interface()), depth+1)
		}
		return map[string]any{"$leak": typ, "$v": out}
	case reflect.Slice, reflect.Array:
		out := make([]any, rv.Len())
		for i := 0; i < rv.Len(); i++ {
			out[i] = e.walk(rv.Index(i).Interface(), fmt.Sprintf("%s[%d]", path, i), depth+1)
		}
		return map[string]any{"$leak": typ, "$v": out}
	default:
		return map[string]any{"$leak": typ, "$v": fmt.Sprintf("%v", v)}
	}
}
