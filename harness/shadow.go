//go:build verifsim

package main

import (
	"fmt"
	"math"
	"reflect"
	"sort"
)

// A shadow records the exact shape and identity of an input document at build
// time: every map (pointer, key set), every slice (data pointer, len, cap,
// sentinel-filled spare capacity) and every scalar. diff() walks the live
// document against it, cycle-safely.

type sentinel struct{ n int }

var theSentinel = &sentinel{42}

// typedTables: non-empty arrays of objects are built as []map[string]any; their spare capacity holds sentinelMap
var typedTables bool

var sentinelMap = map[string]any{"$sentinel": true}

const spareCap = 2

type shadow struct {
	kind   int // 0 scalar, 1 map, 2 slice, 3 []map[string]any
	scalar any
	ptr    uintptr
	keys   []string
	kids   []*shadow // per key (sorted) or per element
	length int
	capa   int
}

// buildDoc deep-copies a decoded JSON object into fresh Go values (slices get
// sentinel-filled spare capacity) and returns its shadow.
func buildDoc(m map[string]any, nativeInts bool) (map[string]any, *shadow) {
	v, sh := buildValue(m, nativeInts)
	return v.(map[string]any), sh
}

// buildDocKeys is buildDoc with native ints below selected top-level keys only.
func buildDocKeys(m map[string]any, nativeInts bool, keys []string) (map[string]any, *shadow) {
	if len(keys) == 0 {
		return buildDoc(m, nativeInts)
	}
	out := make(map[string]any, len(m))
	sh := &shadow{kind: 1}
	names := make([]string, 0, len(m))
	for k := range m {
		names = append(names, k)
	}
	sort.Strings(names)
	sh.keys = names
	for _, k := range names {
		native := nativeInts
		for _, nk := range keys {
			if nk == k {
				native = true
			}
		}
		c, csh := buildValue(m[k], native)
		out[k] = c
		sh.kids = append(sh.kids, csh)
	}
	sh.ptr = reflect.ValueOf(out).Pointer()
	return out, sh
}

func buildValue(v any, nativeInts bool) (any, *shadow) {
	switch x := v.(type) {
	case map[string]any:
		out := make(map[string]any, len(x))
		sh := &shadow{kind: 1}
		keys := make([]string, 0, len(x))
		for k := range x {
			keys = append(keys, k)
		}
		sort.Strings(keys)
		sh.keys = keys
		for _, k := range keys {
			c, csh := buildValue(x[k], nativeInts)
			out[k] = c
			sh.kids = append(sh.kids, csh)
		}
		sh.ptr = reflect.ValueOf(out).Pointer()
		return out, sh
	case []any:
		if typedTables && allObjects(x) {
			out := make([]map[string]any, len(x), len(x)+spareCap)
			sh := &shadow{kind: 3, length: len(x), capa: len(x) + spareCap}
			for i := range x {
				c, csh := buildValue(x[i], nativeInts)
				out[i] = c.(map[string]any)
				sh.kids = append(sh.kids, csh)
			}
			full := out[:cap(out)]
			for i := len(x); i < cap(out); i++ {
				full[i] = sentinelMap
			}
			sh.ptr = reflect.ValueOf(out).Pointer()
			return out, sh
		}
		out := make([]any, len(x), len(x)+spareCap)
		sh := &shadow{kind: 2, length: len(x), capa: len(x) + spareCap}
		for i := range x {
			c, csh := buildValue(x[i], nativeInts)
			out[i] = c
			sh.kids = append(sh.kids, csh)
		}
		full := out[:cap(out)]
		for i := len(x); i < cap(out); i++ {
			full[i] = theSentinel
		}
		sh.ptr = reflect.ValueOf(out).Pointer()
		return out, sh
	case float64:
		if nativeInts && x == math.Trunc(x) && math.Abs(x) < 1e15 {
			return int(x), &shadow{scalar: int(x)}
		}
		return x, &shadow{scalar: x}
	default:
		return x, &shadow{scalar: x}
	}
}

func allObjects(x []any) bool {
	for _, e := range x {
		if _, ok := e.(map[string]any); !ok {
			return false
		}
	}
	return len(x) > 0
}

func (s *shadow) diff(doc map[string]any) []string {
	d := &differ{}
	d.walk(s, doc, "$")
	return d.out
}

type differ struct {
	out  []string
	path []uintptr
}

func (d *differ) add(format string, a ...any) {
	if len(d.out) < 40 {
		d.out = append(d.out, fmt.Sprintf(format, a...))
	}
}

func (d *differ) walk(s *shadow, v any, path string) {
	switch s.kind {
	case 0:
		if !scalarEqual(s.scalar, v) {
			d.add("%s: value changed from %v to %s", path, s.scalar, describe(v))
		}
	case 1:
		m, ok := v.(map[string]any)
		if !ok {
			d.add("%s: object replaced by %s", path, describe(v))
			return
		}
		p := reflect.ValueOf(m).Pointer()
		if p != s.ptr {
			d.add("%s: object replaced by a different object", path)
		}
		for _, q := range d.path {
			if q == p {
				d.add("%s: cycle", path)
				return
			}
		}
		d.path = append(d.path, p)
		have := make([]string, 0, len(m))
		for k := range m {
			have = append(have, k)
		}
		sort.Strings(have)
		for _, k := range have {
			if i := sort.SearchStrings(s.keys, k); i >= len(s.keys) || s.keys[i] != k {
				d.add("%s: key %q added (%s)", path, k, describe(m[k]))
			}
		}
		for i, k := range s.keys {
			c, ok := m[k]
			if !ok {
				d.add("%s: key %q removed", path, k)
				continue
			}
			d.walk(s.kids[i], c, path+"."+k)
		}
		d.path = d.path[:len(d.path)-1]
	case 3:
		d.walkTyped(s, v, path)
	case 2:
		a, ok := v.([]any)
		if !ok {
			d.add("%s: array replaced by %s", path, describe(v))
			return
		}
		if len(a) != s.length {
			d.add("%s: array length changed from %d to %d", path, s.length, len(a))
		}
		if cap(a) != s.capa || (cap(a) > 0 && reflect.ValueOf(a).Pointer() != s.ptr) {
			d.add("%s: array resliced or reallocated", path)
			return
		}
		full := a[:cap(a)]
		for i := s.length; i < s.capa && i < len(full); i++ {
			if full[i] != any(theSentinel) {
				d.add("%s: spare capacity slot %d overwritten with %s", path, i, describe(full[i]))
			}
		}
		for i := 0; i < s.length && i < len(a); i++ {
			d.walk(s.kids[i], a[i], fmt.Sprintf("%s[%d]", path, i))
		}
	}
}

func (d *differ) walkTyped(s *shadow, v any, path string) {
	a, ok := v.([]map[string]any)
	if !ok {
		d.add("%s: typed array replaced by %s", path, describe(v))
		return
	}
	if len(a) != s.length {
		d.add("%s: array length changed from %d to %d", path, s.length, len(a))
	}
	if cap(a) != s.capa || reflect.ValueOf(a).Pointer() != s.ptr {
		d.add("%s: array resliced or reallocated", path)
		return
	}
	full := a[:cap(a)]
	for i := s.length; i < s.capa && i < len(full); i++ {
		if reflect.ValueOf(full[i]).Pointer() != reflect.ValueOf(sentinelMap).Pointer() {
			d.add("%s: spare capacity slot %d overwritten with %s", path, i, describe(full[i]))
		}
	}
	for i := 0; i < s.length && i < len(a); i++ {
		d.walk(s.kids[i], a[i], fmt.Sprintf("%s[%d]", path, i))
	}
}

func scalarEqual(a, b any) bool {
	switch x := a.(type) {
	case nil:
		return b == nil
	case float64:
		y, ok := b.(float64)
		return ok && (x == y || (math.IsNaN(x) && math.IsNaN(y)))
	case int:
		y, ok := b.(int)
		return ok && x == y
	case string:
		y, ok := b.(string)
		return ok && x == y
	case bool:
		y, ok := b.(bool)
		return ok && x == y
	}
	return false
}

func describe(v any) string {
	switch x := v.(type) {
	case nil:
		return "null"
	case map[string]any:
		return fmt.Sprintf("object(%d keys)", len(x))
	case []any:
		return fmt.Sprintf("array(len %d)", len(x))
	case []map[string]any:
		return fmt.Sprintf("typed array(len %d)", len(x))
	case string:
		return fmt.Sprintf("%q", x)
	case float64, bool, int:
		return fmt.Sprintf("%v", x)
	}
	return fmt.Sprintf("<%T>", v)
}
