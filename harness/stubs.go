//go:build verifsim

package main

import (
	"fmt"
	"time"

	genql "github.com/vedadiyan/genql"
	casefmt "github.com/vedadiyan/genql/zzcase"
	"github.com/vedadiyan/genql/zzsim"
)

// The stub user functions are the library's only "I/O": their latency
// (simulated Sleep), error-at-k-th-call and panic-at-k-th-call are dictated by
// the case's stub plan. Bookkeeping is //go:norace over slices (no maps), so it
// neither adds race reports nor happens-before edges.

var (
	plan     *casefmt.StubPlan
	calls    []casefmt.CallLog
	counters []int // per stub id
	seq      int64
)

//go:norace
func nextSeq() int64 { seq++; return seq }

//go:norace
func callLog() []casefmt.CallLog { return calls }

//go:norace
func beginCall(stub string, id int, arg string, marker bool) (idx int, call int) {
	for len(counters) <= id {
		counters = append(counters, 0)
	}
	counters[id]++
	call = counters[id]
	seq++
	calls = append(calls, casefmt.CallLog{
		Stub: stub, ID: id, Call: call, Task: zzsim.CurrentTask(), Arg: arg,
		SeqStart: seq, NsStart: zzsim.NowNs(), Marker: marker,
	})
	return len(calls) - 1, call
}

//go:norace
func endCall(idx int, faulted string) {
	seq++
	calls[idx].SeqEnd = seq
	calls[idx].NsEnd = zzsim.NowNs()
	calls[idx].Faulted = faulted
}

//go:norace
func latencyFor(id, call int) int64 {
	var ns int64
	found := false
	for _, r := range plan.Lat {
		if r.ID == id && r.Call == call-1 {
			return r.Ns
		}
		if r.ID == id && r.Call == -1 && !found {
			ns, found = r.Ns, true
		}
	}
	return ns
}

//go:norace
func faultFor(id, call int, arg string) string {
	for _, f := range plan.Faults {
		if f.ID != id {
			continue
		}
		if f.Arg != "" {
			if f.Arg == arg {
				return f.Kind
			}
			continue
		}
		if f.K == call || f.Persistent && call >= f.K {
			return f.Kind
		}
	}
	return ""
}

func stubID(args []any) (int, error) {
	if len(args) < 1 {
		return 0, fmt.Errorf("stub: missing id argument")
	}
	a0 := args[0]
	// GLOBAL.f((SELECT 7 AS i FROM dual), ...): every argument is a subquery result
	for i := 0; i < 3; i++ {
		switch x := a0.(type) {
		case []any:
			if len(x) == 1 {
				a0 = x[0]
			}
		case map[string]any:
			if len(x) == 1 {
				for _, v := range x {
					a0 = v
				}
			}
		}
	}
	if n, isInt := a0.(int); isInt {
		a0 = float64(n)
	}
	f, ok := a0.(float64)
	if !ok || f < 0 || f > 100000 {
		return 0, fmt.Errorf("stub: bad id argument %T %v", args[0], args[0])
	}
	return int(f), nil
}

type injected struct{ msg string }

func (e *injected) Error() string { return e.msg }

// stubBody is shared by all stubs. transform=false: returns its second
// argument unchanged; transform=true: returns a value derived from it.
func stubBody(name string, transform bool) genql.Function {
	return func(q *genql.Query, current genql.Map, _ *genql.FunctionOptions, args []any) (any, error) {
		id, err := stubID(args)
		if err != nil {
			return nil, err
		}
		var x any
		if len(args) > 1 {
			x = args[1]
		}
		marker := false
		if current != nil {
			_, marker = current["<-"]
		}
		arg := argText(x)
		idx, call := beginCall(name, id, arg, marker)
		if ns := latencyFor(id, call); ns > 0 {
			zzsim.Sleep(time.Duration(ns))
			// user code looks at what it was handed when it gets round to it: its argument, the row it runs on
			inspect(x, 0)
			inspect(current, 2)
		}
		switch kind := faultFor(id, call, arg); kind {
		case "error":
			endCall(idx, kind)
			return nil, &injected{fmt.Sprintf("injected fault id=%d k=%d", id, call)}
		case "panic":
			endCall(idx, kind)
			panic(&injected{fmt.Sprintf("injected panic id=%d k=%d", id, call)})
		case "panic_str":
			endCall(idx, kind)
			panic(fmt.Sprintf("injected string panic id=%d k=%d", id, call))
		}
		endCall(idx, "")
		if !transform {
			return x, nil
		}
		switch v := x.(type) {
		case float64:
			return v + 1000*float64(id), nil
		case int:
			return float64(v) + 1000*float64(id), nil
		case string:
			return fmt.Sprintf("fx%d:%s", id, v), nil
		default:
			return x, nil
		}
	}
}

// inspect reads every entry of the maps and slices of a value (a few levels deep), as user code walking its
// argument would; the reads are what ThreadSanitizer gets to see.
func inspect(x any, depth int) (n int) {
	defer func() { recover() }()
	if depth > 3 {
		return 0
	}
	switch v := x.(type) {
	case map[string]any:
		for k, e := range v {
			n += len(k) + inspect(e, depth+1)
		}
	case []any:
		for _, e := range v {
			n += inspect(e, depth+1)
		}
	case *any:
		if v != nil {
			n += inspect(*v, depth+1)
		}
	}
	return n + 1
}

func argText(x any) (out string) {
	defer func() {
		if recover() != nil {
			out = "<unprintable>"
		}
	}()
	switch v := x.(type) {
	case nil:
		return "null"
	case string:
		return "s:" + v
	case float64:
		return fmt.Sprintf("n:%v", v)
	case int:
		return fmt.Sprintf("n:%v", v)
	case bool:
		return fmt.Sprintf("b:%v", v)
	default:
		return fmt.Sprintf("%T", x)
	}
}

// varStub lets user code running under an execution strategy use the query's
// variable context through the library's exported SETVAR/GETVAR functions.
func varStub(set bool) genql.Function {
	return func(q *genql.Query, current genql.Map, fo *genql.FunctionOptions, args []any) (any, error) {
		id, err := stubID(args)
		if err != nil {
			return nil, err
		}
		idx, call := beginCall("var", id, argText(nil), false)
		if ns := latencyFor(id, call); ns > 0 {
			zzsim.Sleep(time.Duration(ns))
		}
		var out any
		if set {
			_, err = genql.SetVarFunc(q, current, fo, args[1:])
		} else {
			out, err = genql.GetVarFunc(q, current, fo, args[1:])
		}
		endCall(idx, "")
		return out, err
	}
}

// barrierStub models user code that batches: an invocation returns only after n invocations of its call site
// have started (e.g. "collect n rows, then flush"). All of a query's ASYNC calls are in flight together, so a
// barrier over all rows completes; it does not if the library quietly bounds or serialises the calls.
var barStarted []int

//go:norace
func barArrive(id int) {
	for len(barStarted) <= id {
		barStarted = append(barStarted, 0)
	}
	barStarted[id]++
}

//go:norace
func barCount(id int) int { return barStarted[id] }

func barrierStub() genql.Function {
	return func(q *genql.Query, current genql.Map, _ *genql.FunctionOptions, args []any) (any, error) {
		id, err := stubID(args)
		if err != nil {
			return nil, err
		}
		n, _ := args[1].(float64)
		var x any
		if len(args) > 2 {
			x = args[2]
		}
		idx, _ := beginCall("bar", id, argText(x), false)
		barArrive(id)
		for barCount(id) < int(n) {
			zzsim.Sleep(time.Millisecond)
		}
		endCall(idx, "")
		if v, ok := x.(float64); ok {
			return v + 1000*float64(id), nil
		}
		return x, nil
	}
}

func registerStubs(p *casefmt.StubPlan) {
	plan = p
	genql.RegisterFunction("bar", barrierStub())
	genql.RegisterFunction("setv", varStub(true))
	genql.RegisterFunction("getv", varStub(false))
	genql.RegisterFunction("fx", stubBody("fx", true))
	genql.RegisterFunction("fid", stubBody("fid", false))
	genql.RegisterImmediateFunction("imm", stubBody("imm", false))
}
