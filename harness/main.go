//go:build verifsim

// The harness child: executes ONE case file against the instrumented library
// under the simulator and prints observations as JSON. It judges nothing
// except facts only visible in-process (Go types in results, input-document
// identity).
package main

import (
	"encoding/json"
	"fmt"
	"os"
	"runtime/debug"
	"time"

	genql "github.com/vedadiyan/genql"
	casefmt "github.com/vedadiyan/genql/zzcase"
	"github.com/vedadiyan/genql/zzsim"
)

type opState struct {
	obs    *casefmt.OpObs
	result any
	has    bool
	shadow *shadow
	doc    map[string]any
	vars   map[string]any
	// a query built ahead of its Exec (Client.BuildFirst) or executed again by a later op (Op.ReexecOf)
	q      *genql.Query
	newErr error
	built  bool
}

var (
	theCase casefmt.Case
	docs    []map[string]any
	shadows []*shadow
	varsets []map[string]any
	ops     []*opState
)

func main() {
	debug.SetMaxStack(64 << 20)
	if len(os.Args) < 2 {
		fmt.Fprintln(os.Stderr, "usage: zzharness <case.json>")
		os.Exit(2)
	}
	b, err := os.ReadFile(os.Args[1])
	if err != nil {
		fmt.Fprintln(os.Stderr, "harness:", err)
		os.Exit(2)
	}
	if err := json.Unmarshal(b, &theCase); err != nil {
		fmt.Fprintln(os.Stderr, "harness: bad case:", err)
		os.Exit(2)
	}
	// wall-clock watchdog: only ever produces exit 3 ("simulator lost control")
	go func() {
		time.Sleep(60 * time.Second)
		fmt.Fprintln(os.Stderr, "HARNESS-WATCHDOG: run exceeded 60s wall clock")
		os.Exit(3)
	}()
	registerStubs(&theCase.Stubs)
	for _, raw := range theCase.Docs {
		var v any
		if err := json.Unmarshal(raw, &v); err != nil {
			fmt.Fprintln(os.Stderr, "harness: bad doc:", err)
			os.Exit(2)
		}
		m, ok := v.(map[string]any)
		if !ok {
			fmt.Fprintln(os.Stderr, "harness: doc must be an object")
			os.Exit(2)
		}
		typedTables = theCase.TypedTables
		built, sh := buildDocKeys(m, theCase.NativeInts, theCase.NativeIntKeys)
		docs = append(docs, built)
		shadows = append(shadows, sh)
	}
	for _, v := range theCase.Vars {
		m := map[string]any{}
		for k, x := range v {
			m[k] = x
		}
		varsets = append(varsets, m)
	}
	var names []string
	var clients []func()
	for ci := range theCase.Clients {
		ci := ci
		cl := theCase.Clients[ci]
		name := cl.Name
		if name == "" {
			name = fmt.Sprintf("client%d", ci)
		}
		names = append(names, name)
		var mine []*opState
		for oi := range cl.Ops {
			st := &opState{obs: &casefmt.OpObs{Client: ci, Op: oi}}
			ops = append(ops, st)
			mine = append(mine, st)
		}
		clients = append(clients, func() {
			if cl.BuildFirst {
				// the caller prepares all its queries, then executes them
				for oi := range cl.Ops {
					if op := &cl.Ops[oi]; op.Register == "" && !op.Reader && op.ReexecOf == 0 {
						buildOp(op, mine[oi], true)
					}
				}
			}
			for oi := range cl.Ops {
				if k := cl.Ops[oi].ReexecOf; k > 0 && k <= oi {
					// Exec once more on the *Query an earlier op of this client built
					mine[oi].q, mine[oi].newErr, mine[oi].built, mine[oi].vars = mine[k-1].q, mine[k-1].newErr, true, mine[k-1].vars
				}
				runOp(&cl.Ops[oi], mine[oi])
			}
		})
	}
	cfg := zzsim.Config{
		Strategy: theCase.Sim.Strategy, Seed: theCase.Sim.Seed, WalkP: theCase.Sim.WalkP,
		ChangePoints: theCase.Sim.ChangePoints, MapPolicy: theCase.Sim.MapPolicy, MapSeed: theCase.Sim.MapSeed,
		StepBudget: theCase.Sim.StepBudget, TraceLimit: theCase.Sim.TraceLimit,
	}
	rep := zzsim.Run(cfg, names, clients)

	out := casefmt.Obs{Race: zzsim.RaceBuild}
	out.Sim = convertReport(rep)
	if rep.Outcome == "ok" {
		// drain finished: re-inspect results and inputs
		for _, st := range ops {
			if st.has {
				enc, _, _ := encodeResult(st.result)
				st.obs.RowsAfter = enc
			}
			if st.shadow != nil {
				st.obs.InputDiffEnd = st.shadow.diff(st.doc)
			}
		}
	}
	for _, st := range ops {
		out.Ops = append(out.Ops, *st.obs)
	}
	out.Calls = callLog()
	enc, err := json.Marshal(&out)
	if err != nil {
		fmt.Fprintln(os.Stderr, "harness: cannot encode observation:", err)
		os.Exit(2)
	}
	os.Stdout.Write(enc)
	os.Stdout.Write([]byte("\n"))
	os.Exit(0)
}

func runOp(op *casefmt.Op, st *opState) {
	obs := st.obs
	obs.Started = true
	obs.SeqStart = nextSeq()
	doc := docs[op.Doc]
	st.doc = doc
	st.shadow = shadows[op.Doc]
	defer func() {
		if r := recover(); r != nil {
			obs.Panic = safeSprint(r)
			obs.PanicStack = trimStack(string(debug.Stack()))
			obs.Returned = true
			obs.SeqReturn = nextSeq()
			obs.StepReturn = zzsim.Steps()
			obs.SimNsReturn = zzsim.NowNs()
			obs.InputDiff = st.shadow.diff(doc)
		}
	}()
	if op.Register != "" {
		if op.RegisterImmediate {
			genql.RegisterImmediateFunction(op.Register, stubBody(op.Register, true))
		} else {
			genql.RegisterFunction(op.Register, stubBody(op.Register, true))
		}
		obs.Returned = true
		obs.SeqReturn = nextSeq()
		obs.StepReturn = zzsim.Steps()
		return
	}
	if op.Reader {
		rs, err := genql.ExecReader(doc, op.Query)
		obs.Returned = true
		obs.SeqReturn = nextSeq()
		obs.StepReturn = zzsim.Steps()
		if err != nil {
			obs.ExecErr = errText(err)
		} else {
			st.result, st.has = rs, true
			obs.Rows, obs.Leaks, obs.JSONErr = encodeResult(rs)
		}
		obs.InputDiff = st.shadow.diff(doc)
		return
	}
	if !st.built {
		buildOp(op, st, false)
	}
	q, err := st.q, st.newErr
	if err != nil {
		obs.Returned = true
		obs.NewErr = errText(err)
		obs.SeqReturn = nextSeq()
		obs.StepReturn = zzsim.Steps()
		obs.SimNsReturn = zzsim.NowNs()
		obs.InputDiff = st.shadow.diff(doc)
		obs.VarsAfter = encodeVars(st.vars)
		return
	}
	rows, err := q.Exec()
	obs.Returned = true
	obs.SeqReturn = nextSeq()
	obs.StepReturn = zzsim.Steps()
	obs.SimNsReturn = zzsim.NowNs()
	if err != nil {
		obs.ExecErr = errText(err)
		if rows != nil {
			obs.NRows = len(rows)
			obs.Rows, obs.Leaks, obs.JSONErr = encodeResult(rows)
		}
	} else {
		st.result, st.has = rows, true
		obs.NRows = len(rows)
		obs.Rows, obs.Leaks, obs.JSONErr = encodeResult(rows)
	}
	if op.ExecTwice {
		func() {
			defer func() {
				if r := recover(); r != nil {
					obs.Exec2 = "panic: " + safeSprint(r)
				}
			}()
			for k, v := range op.VarsBetween {
				if st.vars != nil {
					st.vars[k] = v
				}
			}
			rows2, err2 := q.Exec()
			if err2 != nil {
				obs.Exec2 = "err: " + errText(err2)
				return
			}
			obs.Exec2 = "ok"
			obs.Rows2, _, _ = encodeResult(rows2)
		}()
	}
	obs.InputDiff = st.shadow.diff(doc)
	obs.VarsAfter = encodeVars(st.vars)
}

// buildOp calls genql.New for a query op; a panic escaping New is kept as the op's construction failure and shows when
// the op runs.
func buildOp(op *casefmt.Op, st *opState, ahead bool) {
	obs := st.obs
	doc := docs[op.Doc]
	st.built = true
	defer func() {
		if !ahead {
			return // built where it runs: runOp's own recover records the escaped panic, as it always did
		}
		if r := recover(); r != nil {
			st.newErr = fmt.Errorf("PANIC escaped New: %s", safeSprint(r))
			obs.Panic = safeSprint(r)
			obs.PanicStack = trimStack(string(debug.Stack()))
		}
	}()
	var opts []genql.QueryOption
	if op.Wrapped {
		opts = append(opts, genql.Wrapped())
	}
	if op.Postgres {
		opts = append(opts, genql.PostgresEscapingDialect())
	}
	if op.Idiomatic {
		opts = append(opts, genql.IdomaticArrays())
	}
	if op.Vars >= 0 && op.Vars < len(varsets) {
		st.vars = varsets[op.Vars]
		opts = append(opts, genql.WithVars(st.vars))
	}
	if op.Constants != nil {
		opts = append(opts, genql.WithConstants(op.Constants))
	}
	if op.ConstShared {
		opts = append(opts, genql.WithConstants(theCase.SharedConstants))
	}
	if !op.NoHandlers {
		opts = append(opts, genql.UnReportedErrors(func(err error) {
			noteReported(obs, errText(err))
			if op.HandlerPanics {
				panic("the caller's error handler cannot cope with: " + errText(err))
			}
		}))
		opts = append(opts, genql.CompletedCallback(func() { noteCompleted(obs) }))
	}
	st.q, st.newErr = genql.New(doc, op.Query, opts...)
}

//go:norace
func noteReported(obs *casefmt.OpObs, s string) { obs.Reported = append(obs.Reported, s) }

//go:norace
func noteCompleted(obs *casefmt.OpObs) { obs.Completed++ }

func errText(err error) string {
	defer func() { recover() }()
	s := err.Error()
	if s == "" {
		return "<empty error text>"
	}
	return s
}

func safeSprint(r any) (out string) {
	defer func() {
		if recover() != nil {
			out = "<unprintable panic value>"
		}
	}()
	if e, ok := r.(error); ok {
		return fmt.Sprintf("%T: %s", r, e.Error())
	}
	return fmt.Sprintf("%T: %v", r, r)
}

func trimStack(s string) string {
	if len(s) > 6000 {
		return s[:6000] + "\n...[truncated]"
	}
	return s
}

func convertReport(r *zzsim.Report) casefmt.SimReport {
	out := casefmt.SimReport{
		Outcome: r.Outcome, Steps: r.Steps, Contended: r.Contended, Switches: r.Switches, Preemptions: r.Preemptions,
		Spawns: r.Spawns, MaxLive: r.MaxLive, MutexContended: r.MutexContended, MapIters: r.MapIters,
		MapPermuted: r.MapPermuted, MapTies: r.MapTies, ClockJumps: r.ClockJumps, SimTimeNs: r.SimTimeNs,
		TraceHash: r.TraceHash, InterleaveHash: r.InterleaveHash,
	}
	for _, e := range r.Events {
		ev := casefmt.SimEvent{Step: e.Step, Kind: e.Kind, From: e.From, To: e.To, Info: e.Info}
		if e.Site != 0 {
			ev.Site = zzsim.SiteName(e.Site)
		}
		out.Events = append(out.Events, ev)
	}
	for _, p := range r.Panics {
		out.Panics = append(out.Panics, casefmt.SimPanic{Task: p.Task, Name: p.Name, Client: p.Client, Value: p.Value, Stack: trimStack(p.Stack)})
	}
	for _, t := range r.Tasks {
		out.Tasks = append(out.Tasks, casefmt.SimTask{ID: t.ID, Name: t.Name, Client: t.Client, State: t.State, BlockedOn: t.BlockedOn, Since: t.Since})
	}
	return out
}
