// Package casefmt defines the case file handed to the harness child and the
// observation it prints. One case file + the code = one exactly repeatable
// simulated run. The same source is compiled into the driver (module verif)
// and copied into the instrumented scratch copy for the harness.
package casefmt

import "encoding/json"

// SimConfig mirrors zzsim.Config.
type SimConfig struct {
	Strategy     string  `json:"strategy"`
	Seed         uint64  `json:"seed"`
	WalkP        float64 `json:"walk_p,omitempty"`
	ChangePoints []int64 `json:"change_points,omitempty"`
	MapPolicy    string  `json:"map_policy"`
	MapSeed      uint64  `json:"map_seed,omitempty"`
	StepBudget   int64   `json:"step_budget,omitempty"`
	TraceLimit   int     `json:"trace_limit,omitempty"`
}

// LatRule gives the simulated latency of the Call-th invocation (0-based; -1 =
// every invocation) of the stub call site ID.
type LatRule struct {
	ID   int   `json:"id"`
	Call int   `json:"call"`
	Ns   int64 `json:"ns"`
}

// Fault makes the K-th invocation (1-based) of stub call site ID fail.
type Fault struct {
	ID   int    `json:"id"`
	K    int    `json:"k"`
	Kind string `json:"kind"` // "error" | "panic" (panics with an error value) | "panic_str"
	// Arg, when set, replaces K: every invocation of site ID whose argument
	// renders as Arg fails (schedule-independent fault placement).
	Arg string `json:"arg,omitempty"`
	// Persistent: the site fails on its K-th invocation and on every later one (the function stays broken)
	Persistent bool `json:"persistent,omitempty"`
}

type StubPlan struct {
	Lat    []LatRule `json:"lat,omitempty"`
	Faults []Fault   `json:"faults,omitempty"`
}

type Op struct {
	Doc       int            `json:"doc"`
	Query     string         `json:"query"`
	Wrapped   bool           `json:"wrapped,omitempty"`
	Postgres  bool           `json:"postgres,omitempty"`
	Idiomatic bool           `json:"idiomatic,omitempty"`
	Vars      int            `json:"vars"` // index into Case.Vars, -1 = none
	Constants map[string]any `json:"constants,omitempty"`
	// ConstShared: pass the case-wide constants map (Case.SharedConstants), the same Go map for every such op
	ConstShared bool `json:"const_shared,omitempty"`
	// Reader: instead of a query, call ExecReader(doc, Query)
	Reader bool `json:"reader,omitempty"`
	// NoHandlers: do not install the UnReportedErrors / CompletedCallback options
	NoHandlers bool `json:"no_handlers,omitempty"`
	// HandlerPanics: the UnReportedErrors handler the caller installs panics (after noting the error)
	HandlerPanics bool `json:"handler_panics,omitempty"`
	// ExecTwice: call Exec a second time on the same *Query after the first returned
	ExecTwice bool `json:"exec_twice,omitempty"`
	// VarsBetween: entries the caller writes into its variable map between the two Execs
	VarsBetween map[string]any `json:"vars_between,omitempty"`
	// Register: instead of a query, (re-)register the stub body under this
	// function name, as an immediate function when RegisterImmediate is set
	// ReexecOf: instead of building a query, call Exec again on the *Query that op number ReexecOf (1-based, earlier, same
	// client) built; the rows are observed as this op's
	ReexecOf          int    `json:"reexec_of,omitempty"`
	Register          string `json:"register,omitempty"`
	RegisterImmediate bool   `json:"register_immediate,omitempty"`
}

type Client struct {
	Name string `json:"name"`
	Ops  []Op   `json:"ops"`
	// BuildFirst: the client calls New for all its queries before it calls Exec on the first one
	BuildFirst bool `json:"build_first,omitempty"`
}

type Case struct {
	Prop string            `json:"prop"`
	Note string            `json:"note,omitempty"`
	Sim  SimConfig         `json:"sim"`
	Docs []json.RawMessage `json:"docs"`
	Vars []map[string]any  `json:"vars,omitempty"`
	// SharedConstants: one constants map handed to every op that sets ConstShared (callers share configuration)
	SharedConstants map[string]any `json:"shared_constants,omitempty"`
	Clients         []Client       `json:"clients"`
	Stubs           StubPlan       `json:"stubs"`
	// NativeInts: build integral JSON numbers of these docs as Go int instead of float64
	NativeInts bool `json:"native_ints,omitempty"`
	// NativeIntKeys: like NativeInts, but only below these top-level keys of each doc (mixing int and float64 tables)
	NativeIntKeys []string `json:"native_int_keys,omitempty"`
	// TypedTables: build every non-empty array whose elements are all objects as []map[string]any (a Go-typed
	// input, as a caller who fills the document from typed data would pass it) instead of []any
	TypedTables bool `json:"typed_tables,omitempty"`
}

// ---------------------------------------------------------------- observation

type Leak struct {
	Path string `json:"path"`
	Type string `json:"type"`
}

type OpObs struct {
	Client       int             `json:"client"`
	Op           int             `json:"op"`
	Started      bool            `json:"started"`
	Returned     bool            `json:"returned"` // New (+Exec) returned control (result, error or recovered panic)
	NewErr       string          `json:"new_err,omitempty"`
	ExecErr      string          `json:"exec_err,omitempty"`
	Panic        string          `json:"panic,omitempty"` // a panic escaped New/Exec
	PanicStack   string          `json:"panic_stack,omitempty"`
	Rows         json.RawMessage `json:"rows,omitempty"`       // canonical encoding at return
	RowsAfter    json.RawMessage `json:"rows_after,omitempty"` // same result value re-encoded after drain
	NRows        int             `json:"n_rows"`
	Leaks        []Leak          `json:"leaks,omitempty"`
	JSONErr      string          `json:"json_err,omitempty"` // encoding/json refused the raw result
	InputDiff    []string        `json:"input_diff,omitempty"`
	InputDiffEnd []string        `json:"input_diff_end,omitempty"` // after drain
	VarsAfter    json.RawMessage `json:"vars_after,omitempty"`
	SeqStart     int64           `json:"seq_start"`
	SeqReturn    int64           `json:"seq_return"`
	StepReturn   int64           `json:"step_return"`
	SimNsReturn  int64           `json:"sim_ns_return"`
	Exec2        string          `json:"exec2,omitempty"` // outcome of the second Exec on the same Query: "ok" | "err: ..." | "panic: ..."
	Rows2        json.RawMessage `json:"rows2,omitempty"`
	Reported     []string        `json:"reported,omitempty"` // errors delivered to the UnReportedErrors callback
	Completed    int             `json:"completed"`          // CompletedCallback invocations
}

type CallLog struct {
	Stub     string `json:"stub"`
	ID       int    `json:"id"`
	Call     int    `json:"call"` // 1-based invocation index for this ID
	Task     int    `json:"task"`
	TaskName string `json:"task_name"`
	Arg      string `json:"arg"`
	SeqStart int64  `json:"seq_start"`
	SeqEnd   int64  `json:"seq_end"` // 0 = never finished
	NsStart  int64  `json:"ns_start"`
	NsEnd    int64  `json:"ns_end"`
	Faulted  string `json:"faulted,omitempty"`
	Marker   bool   `json:"marker,omitempty"` // the row handed to the stub carried a `<-` key
}

type SimTask struct {
	ID        int    `json:"id"`
	Name      string `json:"name"`
	Client    bool   `json:"client"`
	State     string `json:"state"`
	BlockedOn string `json:"blocked_on,omitempty"`
	Since     int64  `json:"since,omitempty"`
}

type SimPanic struct {
	Task   int    `json:"task"`
	Name   string `json:"name"`
	Client bool   `json:"client"`
	Value  string `json:"value"`
	Stack  string `json:"stack"`
}

type SimEvent struct {
	Step int64  `json:"step"`
	Kind string `json:"kind"`
	From int    `json:"from"`
	To   int    `json:"to"`
	Site string `json:"site,omitempty"`
	Info string `json:"info,omitempty"`
}

type SimReport struct {
	Outcome        string     `json:"outcome"`
	Steps          int64      `json:"steps"`
	Contended      int64      `json:"contended"`
	Switches       int64      `json:"switches"`
	Preemptions    int64      `json:"preemptions"`
	Spawns         int64      `json:"spawns"`
	MaxLive        int        `json:"max_live"`
	MutexContended int64      `json:"mutex_contended"`
	MapIters       int64      `json:"map_iters"`
	MapPermuted    int64      `json:"map_permuted"`
	MapTies        int64      `json:"map_ties"`
	ClockJumps     int64      `json:"clock_jumps"`
	SimTimeNs      int64      `json:"sim_time_ns"`
	TraceHash      string     `json:"trace_hash"`
	InterleaveHash string     `json:"interleave_hash"`
	Events         []SimEvent `json:"events,omitempty"`
	Panics         []SimPanic `json:"panics,omitempty"`
	Tasks          []SimTask  `json:"tasks,omitempty"`
}

type Obs struct {
	Race  bool      `json:"race_build"`
	Sim   SimReport `json:"sim"`
	Ops   []OpObs   `json:"ops"`
	Calls []CallLog `json:"calls,omitempty"`
	// filled in by the driver, not the child:
	Fatal     string   `json:"fatal,omitempty"` // the child died: classification + message
	ExitCode  int      `json:"exit_code,omitempty"`
	Races     []string `json:"races,omitempty"` // race report signatures
	RaceTexts []string `json:"race_texts,omitempty"`
	Stderr    string   `json:"stderr,omitempty"`
	WallMs    float64  `json:"wall_ms,omitempty"`
}
