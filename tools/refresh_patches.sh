#!/usr/bin/env bash
# refresh_patches.sh — after a new commit in /repo: re-base every stored patch (seeded/*/patch.diff and parts,
# preserving/*/patch.diff, reverts/*.diff) onto /repo HEAD. A patch that applies cleanly is left alone; one that
# needs a 3-way merge is rewritten; one that conflicts is listed for re-making by hand.
set -u
here="$(dirname "$(readlink -f "$0")")"; V="$(readlink -f "$here/..")"
W=/tmp/refresh-wt
git -C /repo worktree remove --force $W >/dev/null 2>&1
git -C /repo worktree add -q --detach $W HEAD || exit 2
trap 'git -C /repo worktree remove --force $W >/dev/null 2>&1' EXIT
cd $W
for f in "$V"/seeded/C*/patch.diff "$V"/seeded/C*/patch_part?.diff "$V"/preserving/P*/patch.diff "$V"/reverts/*.diff; do
  [ -f "$f" ] || continue
  git reset -q --hard HEAD; git clean -fdq
  if git apply --check "$f" 2>/dev/null; then continue; fi
  if git apply --3way "$f" >/dev/null 2>&1 && ! git diff --name-only --diff-filter=U | grep -q .; then
     git reset -q
     # (a merge that leaves nothing - the tree already has the change, or has lost what it edited - is a conflict to look at)
     if [ -z "$(git diff)" ]; then echo "CONFLICT ${f#$V/} (3-way merge left no change)"; else git diff > "$f"; echo "REBASED ${f#$V/}"; fi
  else
     echo "CONFLICT ${f#$V/}"
  fi
done
git reset -q --hard HEAD; git clean -fdq
