#!/usr/bin/env python3
"""Ad-hoc exploration: run one query through a built harness. usage: q.py HARNESS DOCJSON QUERY [strategy] [extra-json-merge]"""
import json,sys,subprocess,tempfile,os
h,doc,q=sys.argv[1:4]
strategy=sys.argv[4] if len(sys.argv)>4 else "np"
case={"prop":"X","sim":{"strategy":strategy,"seed":1,"map_policy":"sorted","trace_limit":0,"walk_p":0.2},
 "docs":[json.loads(doc)],"clients":[{"ops":[{"doc":0,"vars":-1,"query":q}]}],"stubs":{}}
if len(sys.argv)>5:
    extra=json.loads(sys.argv[5])
    for k,v in extra.items():
        if k=="op": case["clients"][0]["ops"][0].update(v)
        else: case[k]=v
f=tempfile.NamedTemporaryFile("w",suffix=".json",delete=False); json.dump(case,f); f.close()
env=dict(os.environ,GORACE="halt_on_error=0 atexit_sleep_ms=0")
p=subprocess.run([h,f.name],capture_output=True,text=True,env=env); os.unlink(f.name)
if p.stdout.strip():
    o=json.loads(p.stdout)
    op=o["ops"][0]
    for k in ("new_err","exec_err","panic","rows","leaks","input_diff","input_diff_end","json_err","vars_after","reported"):
        if op.get(k): print(k+":",json.dumps(op[k]))
    if op.get("rows")!=op.get("rows_after"): print("rows_after:",json.dumps(op.get("rows_after")))
    s=o["sim"]; print("sim:",s["outcome"],"steps",s["steps"],"spawns",s["spawns"],"panics",[(p["name"],p["value"]) for p in s.get("panics",[])])
    print("calls:",[(c["stub"],c["id"],c["call"],c["arg"],c["seq_start"],c["seq_end"],c.get("faulted","")) for c in o.get("calls",[])], "ret",op.get("seq_return"))
else:
    print("NO OUTPUT exit",p.returncode)
err=p.stderr
if err.strip(): print("STDERR:",err[:3000])
