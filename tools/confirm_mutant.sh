#!/usr/bin/env bash
# confirm_mutant.sh <dir-with-patch.diff+demo_test.go> [extra go test flags]
# Confirms a seeded change against /repo HEAD in a scratch worktree:
#   patch applies; suite passes 3x with it; demo fails with it; demo passes without it.
set -u
M="$1"; shift
export GOFLAGS=-mod=mod GOPROXY=off GOSUMDB=off GOTOOLCHAIN=local
W=$(mktemp -d /tmp/confirm-XXXXXX); rmdir $W
git -C /repo worktree add -q --detach $W HEAD || exit 2
trap 'git -C /repo worktree remove --force $W >/dev/null 2>&1' EXIT
cd $W
if ! git apply --3way $M/patch.diff 2>/tmp/apply.err; then echo "APPLY_FAILED: $(head -3 /tmp/apply.err | tr '\n' ' ')"; exit 3; fi
git reset -q
go build ./... 2>&1 | head -5 || { echo BUILD_FAILED; exit 3; }
ok=1
for i in 1 2 3; do go test -vet=off -count=1 ./... >/tmp/suite.out 2>&1 || { ok=0; break; }; done
[ $ok = 1 ] && echo "suite_with_patch: PASS x3" || { echo "suite_with_patch: FAIL"; tail -5 /tmp/suite.out; }
cp $M/demo_test.go ./zz_demo_test.go
tests=$(grep -o '^func Test[A-Za-z0-9_]*' zz_demo_test.go | sed 's/func //' | paste -sd'|')
if timeout 300 go test -vet=off -count=1 "$@" -run "^($tests)\$" . >/tmp/demo_with.out 2>&1; then echo "demo_with_patch: PASS (unexpected)"; else echo "demo_with_patch: FAIL (expected)"; fi
git checkout -q -- . 
okc=1
for i in 1 2; do timeout 300 go test -vet=off -count=1 "$@" -run "^($tests)\$" . >/tmp/demo_without.out 2>&1 || okc=0; done
[ $okc = 1 ] && echo "demo_without_patch: PASS x2 (expected)" || { echo "demo_without_patch: FAIL (unexpected)"; tail -8 /tmp/demo_without.out; }
