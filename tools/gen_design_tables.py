#!/usr/bin/env python3
"""Regenerates the seeded-change table of DESIGN.md §10 from seeded/*/meta.json (between the table header and 'Totals:')."""
import json,os,re,sys
root=os.path.dirname(os.path.dirname(os.path.abspath(__file__)))
s=open(root+'/DESIGN.md').read()
metas=[]
for d in sorted(x for x in os.listdir(root+'/seeded') if not x.startswith('_')):
    p=root+'/seeded/%s/meta.json'%d
    if os.path.exists(p): metas.append(json.load(open(p)))
rows=[]
for m in metas:
    by=re.search(r'(C\d\d) quick',m['checks_run']['cmd']).group(1)
    fr=m.get('first_run','')
    first='caught' if fr.startswith('caught') else ('missed' if fr.startswith('missed by') else fr)
    rows.append('| %s | %s | %s | %s | %s: %s |'%(m['id'],m['breaks_property'],m['needs_to_manifest'].replace('|','\\|'),first.replace('|','\\|'),by,m['checks_run']['signature'].replace('|','\\|')))
hdr='| id | breaks | what it needs to manifest | first run | caught now by |\n|---|---|---|---|---|\n'
i=s.index(hdr)+len(hdr)
j=s.index('\nTotals:',i)
n=len(metas); caught=sum(1 for m in metas if m.get('first_run','').startswith('caught'))
s=s[:i]+'\n'.join(rows)+'\n'+s[j:]
s=re.sub(r'Totals: \d+ seeded changes; \d+ were caught on arrival, \d+ were missed on arrival','Totals: %d seeded changes; %d were caught on arrival, %d were missed on arrival'%(n,caught,n-caught),s)
open(root+'/DESIGN.md','w').write(s)
print(n,caught)
