#!/usr/bin/env bash
# run_mutant.sh <patch.diff> <prop> [tier]  — apply a seeded change to a scratch copy of /repo HEAD, run one check on it.
# Evidence and replays go to a scratch dir; /repo and /verif/evidence are untouched.
set -u
P="$(readlink -f "$1")"; prop="$2"; tier="${3:-quick}"
S=$(mktemp -d /tmp/mutrun-XXXXXX)
trap 'rm -rf $S' EXIT
mkdir -p $S/repo $S/ev $S/replays
git -C /repo archive HEAD | tar -x -C $S/repo
(cd $S/repo && git init -q . && git apply $P) || { echo "PATCH_DOES_NOT_APPLY"; exit 3; }
rm -rf $S/repo/.git
VERIF_REPO=$S/repo VERIF_EVIDENCE_DIR=$S/ev VERIF_REPLAY_DIR=$S/replays "$(dirname "$(readlink -f "$0")")/../check" $prop $tier > $S/out.txt 2>&1
rc=$?
grep -v WARNING $S/out.txt | grep -A2 "^VIOLATION\|^KNOWN\|INFRA\|UNSUPPORTED" | cut -c1-${MUT_COLS:-400} | head -${MUT_LINES:-12}
tail -1 $S/out.txt | cut -c1-200
echo "rc=$rc"
if [ -n "${MUT_KEEP_REPLAY:-}" ]; then mkdir -p "$MUT_KEEP_REPLAY"; cp $S/replays/* "$MUT_KEEP_REPLAY"/ 2>/dev/null; fi
exit $rc
