#!/usr/bin/env python3
"""record_fix.py COMMIT PROP REPLAY_SRC WHAT... — after a `fix:` commit in /repo: copy the replay to findings/<PROP>-fixed-<COMMIT>.json,
append the 'fixed' entry to known_findings.json and write reverts/<COMMIT>.diff (the un-fix, against the commit itself)."""
import json,sys,shutil,subprocess,os
commit,prop,src=sys.argv[1:4]; what=' '.join(sys.argv[4:])
root=os.path.dirname(os.path.dirname(os.path.abspath(__file__)))
k=json.load(open(root+'/known_findings.json'))
id='%s-fixed-%s'%(prop,commit)
dst='findings/%s.json'%id
shutil.copy(src,root+'/'+dst)
k['findings']=[f for f in k['findings'] if f['id']!=id]
k['findings'].append({"id":id,"property":prop,"status":"fixed","commit":commit,"what":"fixed: property=%s %s %s"%(prop,commit,what),"replay":dst})
json.dump(k,open(root+'/known_findings.json','w'),indent=1,ensure_ascii=False)
d=subprocess.run(['git','-C','/repo','diff',commit,commit+'^'],capture_output=True,text=True).stdout
open(root+'/reverts/%s.diff'%commit,'w').write(d)
print('recorded',id)
