#!/usr/bin/env bash
# sweep_preserving.sh [tier] — every check must exit 0 on every behaviour-preserving refactor.
set -u
here="$(dirname "$(readlink -f "$0")")"
export VERIF_SHRINK_TIME="${VERIF_SHRINK_TIME:-5s}"
for d in "$here"/../preserving/P*; do
  id=$(basename $d)
  for prop in ${PROPS:-C03 C04 C10 C11 C12 C13 C14 C19 C20}; do
    out=$(MUT_LINES=4 MUT_COLS=300 "$here/run_mutant.sh" $d/patch.diff $prop ${1:-quick} 2>&1 | grep -v WARNING)
    rc=$(echo "$out" | grep -o 'rc=[0-9]*' | tail -1)
    cls=$(echo "$out" | grep -m1 'class:\|INFRA\|UNSUPPORTED\|PATCH_DOES' | sed 's/^ *class: //')
    echo "$id $prop $rc ${cls:-held}"
  done
done
