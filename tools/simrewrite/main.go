// simrewrite instruments a scratch copy of the library for the deterministic
// simulator. It is type-directed (go/packages) and applies text splices at
// byte offsets of the original files, so every original line keeps its line
// number.
//
//	simrewrite -dir <scratch copy of /repo> -simrt <dir of the zzsim sources>
//
// Exit status: 0 ok, 3 unsupported construct (message on stderr), 1 other error.
package main

import (
	"encoding/json"
	"flag"
	"fmt"
	"go/ast"
	"go/token"
	"go/types"
	"os"
	"path/filepath"
	"sort"
	"strings"

	"golang.org/x/tools/go/packages"
)

type edit struct {
	off  int
	del  int
	text string
	seq  int
}

type fileEdits struct {
	path  string
	src   []byte
	edits []edit
	idx   int
	// names of imports whose uses may all have been rewritten
	keep map[string]string
}

type stats struct {
	Files       int      `json:"files"`
	Yields      int      `json:"yields"`
	GoStmts     int      `json:"go_stmts"`
	MapRanges   int      `json:"map_ranges"`
	SyncTypes   int      `json:"sync_types"`
	TimeCalls   int      `json:"time_calls"`
	Unsupported []string `json:"unsupported"`
	SiteFiles   []string `json:"site_files"`
}

func main() {
	dir := flag.String("dir", "", "scratch copy to rewrite in place")
	simrt := flag.String("simrt", "", "directory holding the zzsim runtime sources")
	report := flag.String("report", "", "write a JSON report here")
	flag.Parse()
	if *dir == "" || *simrt == "" {
		fmt.Fprintln(os.Stderr, "usage: simrewrite -dir D -simrt S")
		os.Exit(1)
	}
	st, err := run(*dir, *simrt)
	if *report != "" && st != nil {
		b, _ := json.MarshalIndent(st, "", " ")
		os.WriteFile(*report, b, 0o644)
	}
	if err != nil {
		fmt.Fprintln(os.Stderr, "simrewrite:", err)
		os.Exit(1)
	}
	if len(st.Unsupported) > 0 {
		for _, u := range st.Unsupported {
			fmt.Fprintln(os.Stderr, "UNSUPPORTED construct", u)
		}
		os.Exit(3)
	}
}

func modulePath(dir string) (string, error) {
	b, err := os.ReadFile(filepath.Join(dir, "go.mod"))
	if err != nil {
		return "", err
	}
	for _, l := range strings.Split(string(b), "\n") {
		l = strings.TrimSpace(l)
		if strings.HasPrefix(l, "module ") {
			return strings.TrimSpace(strings.TrimPrefix(l, "module ")), nil
		}
	}
	return "", fmt.Errorf("no module line in go.mod")
}

func run(dir, simrt string) (*stats, error) {
	mod, err := modulePath(dir)
	if err != nil {
		return nil, err
	}
	simImport := mod + "/zzsim"
	cfg := &packages.Config{
		Mode:  packages.NeedName | packages.NeedFiles | packages.NeedCompiledGoFiles | packages.NeedSyntax | packages.NeedTypes | packages.NeedTypesInfo | packages.NeedImports | packages.NeedDeps,
		Dir:   dir,
		Tests: false,
		Env:   append(os.Environ(), "GOFLAGS=-mod=mod", "GOPROXY=off", "GOSUMDB=off", "GOTOOLCHAIN=local"),
	}
	pkgs, err := packages.Load(cfg, "./...")
	if err != nil {
		return nil, err
	}
	st := &stats{}
	var all []*fileEdits
	for _, p := range pkgs {
		if len(p.Errors) > 0 {
			return st, fmt.Errorf("package %s does not type-check: %v", p.PkgPath, p.Errors[0])
		}
		if strings.HasSuffix(p.PkgPath, "/zzsim") || strings.HasSuffix(p.PkgPath, "/zzharness") {
			continue
		}
		for i, f := range p.Syntax {
			path := p.CompiledGoFiles[i]
			if strings.HasSuffix(path, "_test.go") || !strings.HasPrefix(path, dir) {
				continue
			}
			src, err := os.ReadFile(path)
			if err != nil {
				return st, err
			}
			rel, _ := filepath.Rel(dir, path)
			fe := &fileEdits{path: path, src: src, idx: len(st.SiteFiles), keep: map[string]string{}}
			st.SiteFiles = append(st.SiteFiles, rel)
			rewriteFile(p, f, fe, st, rel)
			all = append(all, fe)
		}
	}
	if len(st.Unsupported) > 0 {
		return st, nil
	}
	for _, fe := range all {
		if err := fe.apply(simImport); err != nil {
			return st, err
		}
		st.Files++
	}
	// install the runtime
	dst := filepath.Join(dir, "zzsim")
	if err := os.MkdirAll(dst, 0o755); err != nil {
		return st, err
	}
	ents, err := os.ReadDir(simrt)
	if err != nil {
		return st, err
	}
	for _, e := range ents {
		if e.IsDir() || !strings.HasSuffix(e.Name(), ".go") || strings.HasSuffix(e.Name(), "_test.go") {
			continue
		}
		b, err := os.ReadFile(filepath.Join(simrt, e.Name()))
		if err != nil {
			return st, err
		}
		if err := os.WriteFile(filepath.Join(dst, e.Name()), b, 0o644); err != nil {
			return st, err
		}
	}
	var sb strings.Builder
	sb.WriteString("package zzsim\n\nfunc init() {\n\tFiles = []string{\n")
	for _, f := range st.SiteFiles {
		fmt.Fprintf(&sb, "\t\t%q,\n", f)
	}
	sb.WriteString("\t}\n}\n")
	if err := os.WriteFile(filepath.Join(dst, "sites_gen.go"), []byte(sb.String()), 0o644); err != nil {
		return st, err
	}
	return st, nil
}

func (fe *fileEdits) add(off, del int, text string) {
	fe.edits = append(fe.edits, edit{off: off, del: del, text: text, seq: len(fe.edits)})
}

func (fe *fileEdits) apply(simImport string) error {
	sort.SliceStable(fe.edits, func(i, j int) bool {
		a, b := fe.edits[i], fe.edits[j]
		if a.off != b.off {
			return a.off < b.off
		}
		// pure insertions go before replacements at the same offset
		if (a.del == 0) != (b.del == 0) {
			return a.del == 0
		}
		return a.seq < b.seq
	})
	var out []byte
	pos := 0
	for _, e := range fe.edits {
		if e.off < pos {
			return fmt.Errorf("%s: overlapping edits at offset %d", fe.path, e.off)
		}
		out = append(out, fe.src[pos:e.off]...)
		out = append(out, e.text...)
		pos = e.off + e.del
	}
	out = append(out, fe.src[pos:]...)
	out = append(out, "\nvar _ = zzsim.Y\n"...)
	names := make([]string, 0, len(fe.keep))
	for n := range fe.keep {
		names = append(names, n)
	}
	sort.Strings(names)
	for _, n := range names {
		out = append(out, fmt.Sprintf("var _ %s\n", fe.keep[n])...)
	}
	_ = simImport
	return os.WriteFile(fe.path, out, 0o644)
}

func rewriteFile(p *packages.Package, f *ast.File, fe *fileEdits, st *stats, rel string) {
	fset := p.Fset
	tf := fset.File(f.Pos())
	off := func(pos token.Pos) int { return tf.Offset(pos) }
	line := func(pos token.Pos) int { return fset.Position(pos).Line }
	site := func(pos token.Pos) string {
		return fmt.Sprintf("%d", int32(fe.idx)<<20|int32(line(pos)&0xfffff))
	}
	unsupported := func(pos token.Pos, what string) {
		st.Unsupported = append(st.Unsupported, fmt.Sprintf("%s at %s:%d", what, rel, line(pos)))
	}
	mod, _ := modulePathOf(p)
	// import on the package line: `package x; import zzsim "mod/zzsim"`
	fe.add(off(f.Name.End()), 0, fmt.Sprintf("; import zzsim %q", mod+"/zzsim"))

	pkgOf := func(id *ast.Ident) string {
		if obj, ok := p.TypesInfo.Uses[id]; ok {
			if pn, ok := obj.(*types.PkgName); ok {
				return pn.Imported().Path()
			}
		}
		return ""
	}
	yieldBefore := func(list []ast.Stmt) {
		for _, s := range list {
			switch s.(type) {
			case *ast.EmptyStmt, *ast.CaseClause, *ast.CommClause:
				continue
			}
			fe.add(off(s.Pos()), 0, fmt.Sprintf("zzsim.Y(%s);", site(s.Pos())))
			st.Yields++
		}
	}
	ast.Inspect(f, func(n ast.Node) bool {
		switch n := n.(type) {
		case *ast.BlockStmt:
			yieldBefore(n.List)
		case *ast.CaseClause:
			yieldBefore(n.Body)
		case *ast.CommClause:
			yieldBefore(n.Body)
		case *ast.SelectStmt:
			unsupported(n.Pos(), "select statement")
		case *ast.ChanType:
			unsupported(n.Pos(), "channel type")
		case *ast.SendStmt:
			unsupported(n.Pos(), "channel send")
		case *ast.UnaryExpr:
			if n.Op == token.ARROW {
				unsupported(n.Pos(), "channel receive")
			}
		case *ast.GoStmt:
			sig, _ := p.TypesInfo.TypeOf(n.Call.Fun).Underlying().(*types.Signature)
			nargs := len(n.Call.Args)
			switch {
			case sig == nil:
				unsupported(n.Pos(), "go statement on a non-function (builtin/conversion)")
			case sig.Results().Len() > 0:
				unsupported(n.Pos(), "go statement calling a function with results")
			case sig.Variadic() || n.Call.Ellipsis.IsValid():
				unsupported(n.Pos(), "go statement calling a variadic function")
			case nargs > 5 || sig.Params().Len() != nargs:
				unsupported(n.Pos(), "go statement with more than 5 arguments")
			default:
				fe.add(off(n.Go), 2, fmt.Sprintf("zzsim.Go%d(%s, ", nargs, site(n.Go)))
				if nargs == 0 {
					fe.add(off(n.Call.Lparen), 1, "")
				} else {
					fe.add(off(n.Call.Lparen), 1, ", ")
				}
				st.GoStmts++
			}
		case *ast.RangeStmt:
			t := p.TypesInfo.TypeOf(n.X)
			if t != nil {
				switch u := t.Underlying().(type) {
				case *types.Map:
					fe.add(off(n.X.Pos()), 0, fmt.Sprintf("zzsim.MapIter(%s, ", site(n.For)))
					fe.add(off(n.X.End()), 0, ")")
					st.MapRanges++
				case *types.Chan:
					unsupported(n.Pos(), "range over channel")
				case *types.Pointer:
					_ = u
				}
			}
		case *ast.SelectorExpr:
			id, ok := n.X.(*ast.Ident)
			if !ok {
				return true
			}
			switch pkgOf(id) {
			case "sync":
				switch n.Sel.Name {
				case "Mutex", "RWMutex", "WaitGroup", "Once", "Map":
					fe.add(off(id.Pos()), len(id.Name), "zzsim")
					fe.keep[id.Name] = id.Name + ".Locker"
					st.SyncTypes++
				case "Cond", "NewCond", "OnceFunc", "OnceValue", "OnceValues":
					unsupported(n.Pos(), "sync."+n.Sel.Name)
				}
			case "time":
				switch n.Sel.Name {
				case "Now", "Sleep", "Since", "Until":
					fe.add(off(id.Pos()), len(id.Name), "zzsim")
					fe.keep[id.Name] = id.Name + ".Duration"
					st.TimeCalls++
				case "After", "AfterFunc", "NewTimer", "NewTicker", "Tick":
					unsupported(n.Pos(), "time."+n.Sel.Name)
				}
			}
		}
		return true
	})
}

func modulePathOf(p *packages.Package) (string, bool) {
	// the module path is the package path minus the sub-directory; we only
	// need it for the import line, so derive it from go.mod next to the files
	for _, f := range p.CompiledGoFiles {
		d := filepath.Dir(f)
		for {
			if _, err := os.Stat(filepath.Join(d, "go.mod")); err == nil {
				m, err := modulePath(d)
				if err == nil {
					return m, true
				}
			}
			nd := filepath.Dir(d)
			if nd == d {
				break
			}
			d = nd
		}
	}
	return "", false
}
