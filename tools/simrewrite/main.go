// simrewrite instruments a scratch copy of the library for the deterministic
// simulator. It is type-directed (go/packages) and applies text splices at
// byte offsets of the original files, so every original line keeps its line
// number.
//
//	simrewrite -dir <scratch copy of /repo> -simrt <dir of the zzsim sources>
//
// Exit status: 0 ok, 3 unsupported construct (message on stderr), 1 other error.
package main

import (
	"encoding/json"
	"flag"
	"fmt"
	"go/ast"
	"go/token"
	"go/types"
	"os"
	"path/filepath"
	"sort"
	"strings"

	"golang.org/x/tools/go/packages"
)

type edit struct {
	off  int
	del  int
	text string
	seq  int
}

type fileEdits struct {
	path  string
	src   []byte
	edits []edit
	idx   int
	// names of imports whose uses may all have been rewritten
	keep map[string]string
}

type stats struct {
	Files       int      `json:"files"`
	Yields      int      `json:"yields"`
	GoStmts     int      `json:"go_stmts"`
	MapRanges   int      `json:"map_ranges"`
	SyncTypes   int      `json:"sync_types"`
	TimeCalls   int      `json:"time_calls"`
	ChanOps     int      `json:"chan_ops"`
	Unsupported []string `json:"unsupported"`
	SiteFiles   []string `json:"site_files"`
}

func main() {
	dir := flag.String("dir", "", "scratch copy to rewrite in place")
	simrt := flag.String("simrt", "", "directory holding the zzsim runtime sources")
	report := flag.String("report", "", "write a JSON report here")
	flag.Parse()
	if *dir == "" || *simrt == "" {
		fmt.Fprintln(os.Stderr, "usage: simrewrite -dir D -simrt S")
		os.Exit(1)
	}
	st, err := run(*dir, *simrt)
	if *report != "" && st != nil {
		b, _ := json.MarshalIndent(st, "", " ")
		os.WriteFile(*report, b, 0o644)
	}
	if err != nil {
		fmt.Fprintln(os.Stderr, "simrewrite:", err)
		os.Exit(1)
	}
	if len(st.Unsupported) > 0 {
		for _, u := range st.Unsupported {
			fmt.Fprintln(os.Stderr, "UNSUPPORTED construct", u)
		}
		os.Exit(3)
	}
}

func modulePath(dir string) (string, error) {
	b, err := os.ReadFile(filepath.Join(dir, "go.mod"))
	if err != nil {
		return "", err
	}
	for _, l := range strings.Split(string(b), "\n") {
		l = strings.TrimSpace(l)
		if strings.HasPrefix(l, "module ") {
			return strings.TrimSpace(strings.TrimPrefix(l, "module ")), nil
		}
	}
	return "", fmt.Errorf("no module line in go.mod")
}

func run(dir, simrt string) (*stats, error) {
	mod, err := modulePath(dir)
	if err != nil {
		return nil, err
	}
	simImport := mod + "/zzsim"
	cfg := &packages.Config{
		Mode:  packages.NeedName | packages.NeedFiles | packages.NeedCompiledGoFiles | packages.NeedSyntax | packages.NeedTypes | packages.NeedTypesInfo | packages.NeedImports | packages.NeedDeps,
		Dir:   dir,
		Tests: false,
		Env:   append(os.Environ(), "GOFLAGS=-mod=mod", "GOPROXY=off", "GOSUMDB=off", "GOTOOLCHAIN=local"),
	}
	pkgs, err := packages.Load(cfg, "./...")
	if err != nil {
		return nil, err
	}
	st := &stats{}
	var all []*fileEdits
	for _, p := range pkgs {
		if len(p.Errors) > 0 {
			return st, fmt.Errorf("package %s does not type-check: %v", p.PkgPath, p.Errors[0])
		}
		if strings.HasSuffix(p.PkgPath, "/zzsim") || strings.HasSuffix(p.PkgPath, "/zzharness") {
			continue
		}
		for i, f := range p.Syntax {
			path := p.CompiledGoFiles[i]
			if strings.HasSuffix(path, "_test.go") || !strings.HasPrefix(path, dir) {
				continue
			}
			src, err := os.ReadFile(path)
			if err != nil {
				return st, err
			}
			rel, _ := filepath.Rel(dir, path)
			fe := &fileEdits{path: path, src: src, idx: len(st.SiteFiles), keep: map[string]string{}}
			st.SiteFiles = append(st.SiteFiles, rel)
			rewriteFile(p, f, fe, st, rel)
			all = append(all, fe)
		}
	}
	if len(st.Unsupported) > 0 {
		return st, nil
	}
	for _, fe := range all {
		if err := fe.apply(simImport); err != nil {
			return st, err
		}
		st.Files++
	}
	// install the runtime
	dst := filepath.Join(dir, "zzsim")
	if err := os.MkdirAll(dst, 0o755); err != nil {
		return st, err
	}
	ents, err := os.ReadDir(simrt)
	if err != nil {
		return st, err
	}
	for _, e := range ents {
		if e.IsDir() || !strings.HasSuffix(e.Name(), ".go") || strings.HasSuffix(e.Name(), "_test.go") {
			continue
		}
		b, err := os.ReadFile(filepath.Join(simrt, e.Name()))
		if err != nil {
			return st, err
		}
		if err := os.WriteFile(filepath.Join(dst, e.Name()), b, 0o644); err != nil {
			return st, err
		}
	}
	var sb strings.Builder
	sb.WriteString("package zzsim\n\nfunc init() {\n\tFiles = []string{\n")
	for _, f := range st.SiteFiles {
		fmt.Fprintf(&sb, "\t\t%q,\n", f)
	}
	sb.WriteString("\t}\n}\n")
	if err := os.WriteFile(filepath.Join(dst, "sites_gen.go"), []byte(sb.String()), 0o644); err != nil {
		return st, err
	}
	return st, nil
}

func (fe *fileEdits) add(off, del int, text string) {
	fe.edits = append(fe.edits, edit{off: off, del: del, text: text, seq: len(fe.edits)})
}

func (fe *fileEdits) apply(simImport string) error {
	sort.SliceStable(fe.edits, func(i, j int) bool {
		a, b := fe.edits[i], fe.edits[j]
		if a.off != b.off {
			return a.off < b.off
		}
		// pure insertions go before replacements at the same offset
		if (a.del == 0) != (b.del == 0) {
			return a.del == 0
		}
		return a.seq < b.seq
	})
	var out []byte
	pos := 0
	for _, e := range fe.edits {
		if e.off < pos {
			return fmt.Errorf("%s: overlapping edits at offset %d", fe.path, e.off)
		}
		out = append(out, fe.src[pos:e.off]...)
		out = append(out, e.text...)
		pos = e.off + e.del
	}
	out = append(out, fe.src[pos:]...)
	out = append(out, "\nvar _ = zzsim.Y\n"...)
	names := make([]string, 0, len(fe.keep))
	for n := range fe.keep {
		names = append(names, n)
	}
	sort.Strings(names)
	for _, n := range names {
		out = append(out, fmt.Sprintf("var _ %s\n", fe.keep[n])...)
	}
	_ = simImport
	return os.WriteFile(fe.path, out, 0o644)
}

func rewriteFile(p *packages.Package, f *ast.File, fe *fileEdits, st *stats, rel string) {
	fset := p.Fset
	tf := fset.File(f.Pos())
	off := func(pos token.Pos) int { return tf.Offset(pos) }
	line := func(pos token.Pos) int { return fset.Position(pos).Line }
	site := func(pos token.Pos) string {
		return fmt.Sprintf("%d", int32(fe.idx)<<20|int32(line(pos)&0xfffff))
	}
	unsupported := func(pos token.Pos, what string) {
		st.Unsupported = append(st.Unsupported, fmt.Sprintf("%s at %s:%d", what, rel, line(pos)))
	}
	mod, _ := modulePathOf(p)
	// import on the package line: `package x; import zzsim "mod/zzsim"`
	fe.add(off(f.Name.End()), 0, fmt.Sprintf("; import zzsim %q", mod+"/zzsim"))

	pkgOf := func(id *ast.Ident) string {
		if obj, ok := p.TypesInfo.Uses[id]; ok {
			if pn, ok := obj.(*types.PkgName); ok {
				return pn.Imported().Path()
			}
		}
		return ""
	}
	yieldBefore := func(list []ast.Stmt) {
		for _, s := range list {
			switch s.(type) {
			case *ast.EmptyStmt, *ast.CaseClause, *ast.CommClause:
				continue
			}
			fe.add(off(s.Pos()), 0, fmt.Sprintf("zzsim.Y(%s);", site(s.Pos())))
			st.Yields++
		}
	}
	inSelectComm := map[ast.Node]bool{} // send statements / receive expressions that are select communications
	recv2 := map[*ast.UnaryExpr]bool{}  // receives in `v, ok := <-ch` position
	suppress := map[*ast.ChanType]bool{}
	selN := 0
	src := func(n ast.Node) string { return string(fe.src[off(n.Pos()):off(n.End())]) }
	// every channel and value expression of a select is evaluated exactly once, in source order, as an argument of
	// zzsim.Select - as the Go spec prescribes for select - so arbitrary expressions (method calls) are fine
	simpleChanExpr := func(e ast.Expr) bool {
		switch x := ast.Unparen(e).(type) {
		case *ast.Ident:
			return true
		case *ast.SelectorExpr:
			// a.b.c: chains of field selections are side-effect free and may be evaluated twice
			for {
				switch y := x.X.(type) {
				case *ast.Ident:
					return true
				case *ast.SelectorExpr:
					x = y
					continue
				}
				return false
			}
		}
		return false
	}
	// select { case v := <-a: A; case b <- x: B; default: D }   ->
	// switch _zs1 := zzsim.Select(true, a.RecvCase(&_zr1_0), b.SendCase(x)); _zs1.I { case 0: v := _zr1_0.V; A; case 1: B; default: D }
	// with `var _zr1_0 zzsim.SelSlot[T]` declared in a block opened just before.
	rewriteSelect := func(n *ast.SelectStmt) {
		selN++
		id := selN
		var decls, cases []string
		hasDefault := false
		for ci, cl := range n.Body.List {
			cc := cl.(*ast.CommClause)
			if cc.Comm == nil {
				hasDefault = true
				continue // `default:` is kept as the switch's default
			}
			head := ""
			switch c := cc.Comm.(type) {
			case *ast.SendStmt:
				inSelectComm[c] = true
				cases = append(cases, fmt.Sprintf("%s.SendCase(%s)", src(c.Chan), src(c.Value)))
			case *ast.ExprStmt:
				u, ok := ast.Unparen(c.X).(*ast.UnaryExpr)
				if !ok || u.Op != token.ARROW {
					unsupported(c.Pos(), "select clause that is not a plain receive")
					return
				}
				inSelectComm[u] = true
				elem, _ := chanOf(p.TypesInfo.TypeOf(u.X))
				slot := fmt.Sprintf("_zr%d_%d", id, ci)
				decls = append(decls, fmt.Sprintf("var %s zzsim.SelSlot[%s]", slot, types.TypeString(elem, qualifier(p))))
				cases = append(cases, fmt.Sprintf("%s.RecvCase(&%s)", src(u.X), slot))
			case *ast.AssignStmt:
				u, ok := ast.Unparen(c.Rhs[0]).(*ast.UnaryExpr)
				if !ok || u.Op != token.ARROW || len(c.Rhs) != 1 || len(c.Lhs) > 2 {
					unsupported(c.Pos(), "select clause that is not a plain receive assignment")
					return
				}
				inSelectComm[u] = true
				delete(recv2, u)
				elem, _ := chanOf(p.TypesInfo.TypeOf(u.X))
				slot := fmt.Sprintf("_zr%d_%d", id, ci)
				decls = append(decls, fmt.Sprintf("var %s zzsim.SelSlot[%s]", slot, types.TypeString(elem, qualifier(p))))
				cases = append(cases, fmt.Sprintf("%s.RecvCase(&%s)", src(u.X), slot))
				tok := c.Tok.String()
				if len(c.Lhs) == 1 {
					head = fmt.Sprintf("%s %s %s.V; _ = %s;", src(c.Lhs[0]), tok, slot, blankSafe(src(c.Lhs[0])))
				} else {
					head = fmt.Sprintf("%s, %s %s %s.V, %s.OK; _, _ = %s, %s;", src(c.Lhs[0]), src(c.Lhs[1]), tok, slot, slot, blankSafe(src(c.Lhs[0])), blankSafe(src(c.Lhs[1])))
				}
			default:
				unsupported(cc.Pos(), "select clause of unknown form")
				return
			}
			// `case <comm>:`  ->  `case <k>: <head>`
			k := len(cases) - 1
			fe.add(off(cc.Case)+len("case"), off(cc.Colon)-off(cc.Case)-len("case"), fmt.Sprintf(" %d", k))
			if head != "" {
				fe.add(off(cc.Colon)+1, 0, " "+head)
			}
		}
		sel := fmt.Sprintf("_zs%d", id)
		open := "{ " + strings.Join(decls, "; ")
		if len(decls) > 0 {
			open += "; "
		}
		open += fmt.Sprintf("switch %s := zzsim.Select(%v", sel, hasDefault)
		for _, c := range cases {
			open += ", " + c
		}
		open += fmt.Sprintf("); %s.I ", sel)
		fe.add(off(n.Select), len("select"), open)
		fe.add(off(n.Body.Rbrace)+1, 0, " }")
		st.ChanOps++
	}
	_ = simpleChanExpr
	ast.Inspect(f, func(n ast.Node) bool {
		switch n := n.(type) {
		case *ast.BlockStmt:
			yieldBefore(n.List)
		case *ast.CaseClause:
			yieldBefore(n.Body)
		case *ast.CommClause:
			yieldBefore(n.Body)
		case *ast.SelectStmt:
			rewriteSelect(n)
		case *ast.ChanType:
			// chan T, <-chan T, chan<- T  ->  *zzsim.Chan[T]
			if suppress[n] {
				break
			}
			fe.add(off(n.Pos()), off(n.Value.Pos())-off(n.Pos()), "*zzsim.Chan[")
			fe.add(off(n.Value.End()), 0, "]")
			st.ChanOps++
		case *ast.SendStmt:
			if !inSelectComm[n] {
				// ch <- v  ->  ch.Send(v)
				fe.add(off(n.Chan.End()), off(n.Value.Pos())-off(n.Chan.End()), ".Send(")
				fe.add(off(n.Value.End()), 0, ")")
				st.ChanOps++
			}
		case *ast.UnaryExpr:
			if n.Op == token.ARROW && !inSelectComm[n] {
				// <-ch  ->  ch.Recv()   (v, ok := <-ch is handled at the assignment)
				if recv2[n] {
					fe.add(off(n.OpPos), off(n.X.Pos())-off(n.OpPos), "")
					fe.add(off(n.X.End()), 0, ".Recv2()")
				} else {
					fe.add(off(n.OpPos), off(n.X.Pos())-off(n.OpPos), "")
					fe.add(off(n.X.End()), 0, ".Recv()")
				}
				st.ChanOps++
			}
		case *ast.AssignStmt:
			if len(n.Lhs) == 2 && len(n.Rhs) == 1 {
				if u, ok := ast.Unparen(n.Rhs[0]).(*ast.UnaryExpr); ok && u.Op == token.ARROW {
					recv2[u] = true
				}
			}
		case *ast.ValueSpec:
			if len(n.Names) == 2 && len(n.Values) == 1 {
				if u, ok := ast.Unparen(n.Values[0]).(*ast.UnaryExpr); ok && u.Op == token.ARROW {
					recv2[u] = true
				}
			}
		case *ast.CallExpr:
			if id, ok := n.Fun.(*ast.Ident); ok && len(n.Args) >= 1 {
				if _, isBuiltin := p.TypesInfo.Uses[id].(*types.Builtin); isBuiltin {
					at := p.TypesInfo.TypeOf(n.Args[0])
					_, isChan := chanOf(at)
					switch {
					case id.Name == "make" && isChan:
						// make(chan T)  ->  zzsim.MakeChan[T](0) ; make(chan T, n) -> zzsim.MakeChan[T](n)
						ct, ok := n.Args[0].(*ast.ChanType)
						if !ok {
							unsupported(n.Pos(), "make of a named channel type")
							break
						}
						fe.add(off(n.Pos()), off(ct.Value.Pos())-off(n.Pos()), "zzsim.MakeChan[")
						suppress[ct] = true
						if len(n.Args) == 1 {
							fe.add(off(ct.Value.End()), off(n.Rparen)-off(ct.Value.End()), "](0")
						} else {
							fe.add(off(ct.Value.End()), off(n.Args[1].Pos())-off(ct.Value.End()), "](")
						}
						st.ChanOps++
					case (id.Name == "close" || id.Name == "len" || id.Name == "cap") && isChan:
						m := map[string]string{"close": "Close", "len": "Len", "cap": "Cap"}[id.Name]
						fe.add(off(n.Pos()), off(n.Args[0].Pos())-off(n.Pos()), "")
						fe.add(off(n.Args[0].End()), off(n.Rparen)-off(n.Args[0].End()), "."+m+"(")
						st.ChanOps++
					}
				}
			}
		case *ast.GoStmt:
			sig, _ := p.TypesInfo.TypeOf(n.Call.Fun).Underlying().(*types.Signature)
			nargs := len(n.Call.Args)
			switch {
			case sig == nil:
				unsupported(n.Pos(), "go statement on a non-function (builtin/conversion)")
			case sig.Results().Len() > 0:
				unsupported(n.Pos(), "go statement calling a function with results")
			case sig.Variadic() || n.Call.Ellipsis.IsValid():
				unsupported(n.Pos(), "go statement calling a variadic function")
			case nargs > 5 || sig.Params().Len() != nargs:
				unsupported(n.Pos(), "go statement with more than 5 arguments")
			default:
				fe.add(off(n.Go), 2, fmt.Sprintf("zzsim.Go%d(%s, ", nargs, site(n.Go)))
				if nargs == 0 {
					fe.add(off(n.Call.Lparen), 1, "")
				} else {
					fe.add(off(n.Call.Lparen), 1, ", ")
				}
				st.GoStmts++
			}
		case *ast.RangeStmt:
			t := p.TypesInfo.TypeOf(n.X)
			if t != nil {
				switch u := t.Underlying().(type) {
				case *types.Map:
					fe.add(off(n.X.Pos()), 0, fmt.Sprintf("zzsim.MapIter(%s, ", site(n.For)))
					fe.add(off(n.X.End()), 0, ")")
					st.MapRanges++
				case *types.Chan:
					// for v := range ch  ->  for v := range ch.Iter()
					fe.add(off(n.X.End()), 0, ".Iter()")
					st.ChanOps++
				case *types.Pointer:
					_ = u
				}
			}
		case *ast.SelectorExpr:
			id, ok := n.X.(*ast.Ident)
			if !ok {
				return true
			}
			switch pkgOf(id) {
			case "sync":
				switch n.Sel.Name {
				case "Mutex", "RWMutex", "WaitGroup", "Once", "Map", "Cond", "NewCond", "OnceFunc", "OnceValue", "OnceValues":
					fe.add(off(id.Pos()), len(id.Name), "zzsim")
					fe.keep[id.Name] = id.Name + ".Locker"
					st.SyncTypes++
				}
			case "time":
				switch n.Sel.Name {
				case "Now", "Sleep", "Since", "Until", "After", "AfterFunc":
					fe.add(off(id.Pos()), len(id.Name), "zzsim")
					fe.keep[id.Name] = id.Name + ".Duration"
					st.TimeCalls++
				case "NewTimer", "NewTicker", "Tick":
					unsupported(n.Pos(), "time."+n.Sel.Name)
				}
			}
		}
		return true
	})
}

func modulePathOf(p *packages.Package) (string, bool) {
	// the module path is the package path minus the sub-directory; we only
	// need it for the import line, so derive it from go.mod next to the files
	for _, f := range p.CompiledGoFiles {
		d := filepath.Dir(f)
		for {
			if _, err := os.Stat(filepath.Join(d, "go.mod")); err == nil {
				m, err := modulePath(d)
				if err == nil {
					return m, true
				}
			}
			nd := filepath.Dir(d)
			if nd == d {
				break
			}
			d = nd
		}
	}
	return "", false
}

// chanOf reports the element type if t's underlying type is a channel.
func chanOf(t types.Type) (types.Type, bool) {
	if t == nil {
		return nil, false
	}
	if c, ok := t.Underlying().(*types.Chan); ok {
		return c.Elem(), true
	}
	return nil, false
}

// qualifier prints types relative to the package being rewritten.
func qualifier(p *packages.Package) types.Qualifier {
	return func(other *types.Package) string {
		if other == p.Types {
			return ""
		}
		return other.Name()
	}
}

// blankSafe returns an expression that may appear on the right of `_ =` for
// the given left-hand side text (the blank identifier itself may not).
func blankSafe(lhs string) string {
	if strings.TrimSpace(lhs) == "_" {
		return "0"
	}
	return lhs
}
