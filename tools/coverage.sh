#!/usr/bin/env bash
# coverage.sh <scratch-dir> [tier] — reach measurement: statement coverage of the library under the simulated runs of
# every check (quick tier by default). Builds a coverage-instrumented plain harness from /repo's working tree,
# runs every property's tier with it, merges the counters and writes
#   <scratch>/func.txt       per-function coverage (library packages only)
#   <scratch>/uncovered.txt  every library block no simulated run entered, with its source text
# Evidence goes to the scratch dir; /verif/evidence is untouched. Exploration aid, not part of any verdict.
set -u
S="${1:?usage: coverage.sh <scratch-dir> [tier]}"; tier="${2:-quick}"
here="$(dirname "$(readlink -f "$0")")"; VERIF="$(readlink -f "$here/..")"
export GOFLAGS=-mod=mod GOPROXY=off GOSUMDB=off GOTOOLCHAIN=local CGO_ENABLED=1
"$VERIF/check" adhoc "$S" >/dev/null 2>&1 || { echo "adhoc build failed"; exit 2; }
(cd "$S/src" && go build -cover -coverpkg=./... -tags verifsim -o "$S/h_cov" ./zzharness) || exit 2
mkdir -p "$S/merged"
for p in ${COV_PROPS:-C03 C04 C10 C11 C12 C13 C14 C19 C20}; do
  mkdir -p "$S/cov/$p" "$S/merged/$p"
  GOCOVERDIR="$S/cov/$p" "$VERIF/bin/driver" run -prop $p -tier $tier -seed "${VERIF_SEED:-20260928}" -plain "$S/h_cov" -race "$S/h_race" \
     -tmp "$S/tmp" -modroot "$S/src" -verif "$VERIF" -out "$S/ev-$p.json" > "$S/run-$p.out" 2>&1
  rc=$?
  go tool covdata merge -i="$S/cov/$p" -o="$S/merged/$p" >/dev/null 2>&1
  rm -rf "$S/cov/$p"
  echo "$p rc=$rc $(tail -1 "$S/run-$p.out" | cut -c1-160)"
done
dirs=$(ls -d "$S"/merged/* | tr '\n' ','); dirs=${dirs%,}
(cd "$S/src" && go tool covdata textfmt -i="$dirs" -o="$S/all.cov" && go tool cover -func="$S/all.cov" | grep -v "zzsim\|zzharness\|zzcase" | awk '{print $NF, $1, $2}' | sort -n > "$S/func.txt")
python3 - "$S" "${VERIF_REPO:-/repo}" > "$S/uncovered.txt" <<'PY'
import re,collections,sys
S,repo=sys.argv[1:3]
blocks=collections.defaultdict(int)
for line in open(S+'/all.cov'):
    if line.startswith('mode:'): continue
    m=re.match(r'(.*):(\d+)\.(\d+),(\d+)\.(\d+) (\d+) (\d+)',line)
    f,l1,c1,l2,c2,n,cnt=m.groups()
    blocks[(f,int(l1),int(l2))]+=int(cnt)
cur=None
for (f,l1,l2),cnt in sorted(blocks.items()):
    if cnt or 'zzsim' in f or 'zzharness' in f or 'zzcase' in f: continue
    rel=f.split('/genql/',1)[1]
    if rel!=cur:
        cur=rel; print('=====',rel)
        try: src=open(repo+'/'+rel).read().split('\n')
        except OSError: src=[]
    print('%d-%d: %s'%(l1,l2,' | '.join(x.strip() for x in src[l1-1:min(l2,l1+2)])[:170]))
PY
grep "total:" "$S/func.txt"; echo "written: $S/func.txt $S/uncovered.txt"
