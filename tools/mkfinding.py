#!/usr/bin/env python3
"""mkfinding.py BASE.json OUT.json QUERY [--doc JSON] [--detail TEXT] [--exec-twice] [--seq-open] [--vars]
Derives a case file from an existing replay/finding of the same property by swapping the query (and optionally the
document): for defects reported with their literal input (a sub-agent's finding, a bug report) rather than found by
the generators. The verdict still comes from the machinery: run it with ./check replay OUT.json."""
import json,sys,re
a=sys.argv[1:]
base,out,q=a[0],a[1],a[2]
opts=a[3:]
b=json.load(open(base))
bd=b['bundle']
op=bd['case']['clients'][0]['ops'][0]
op['query']=q
for k in ('wrapped','postgres','idiomatic','exec_twice','no_handlers','constants','reader'): op.pop(k,None)
bd['case']['clients'][0]['ops']=[op]
if '--exec-twice' in opts: op['exec_twice']=True
if '--vars' in opts:
    op['vars']=0; bd['case']['vars']=[{}]
if '--doc' in opts:
    bd['case']['docs']=[json.loads(opts[opts.index('--doc')+1])]
for k in ('native_ints','native_int_keys','typed_tables'): bd['case'].pop(k,None)
e=bd.get('expect')
if isinstance(e,dict):
    if 'query' in e: e['query']=q
    if 'sites' in e: e['sites']=sorted(set(int(x) for x in re.findall(r'f(?:x|id)\((\d+)',q)))
    if 'seq_fixed' in e: e['seq_fixed']='--seq-open' not in opts
    if 'shape' in e: e['shape']='reported'
bd['kind']='reported'
bd['tags']=[t for t in bd.get('tags',[]) if not t.startswith('shape:') and not t.startswith('finding:')]+['reported']
bd['case']['stubs']={'lat':[{'id':s,'call':-1,'ns':1000000} for s in (e.get('sites',[]) if isinstance(e,dict) else [])]}
b['detail']=opts[opts.index('--detail')+1] if '--detail' in opts else 'reported input: '+q
b['sig']='reported'
b.pop('observation',None)
json.dump(b,open(out,'w'),indent=1,ensure_ascii=False)
print('written',out)
