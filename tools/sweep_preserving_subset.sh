#!/usr/bin/env bash
# sweep_preserving_subset.sh <glob> — like sweep_preserving.sh for preserving/<glob>; PROPS='C12 C14' limits the checks run
here="$(dirname "$(readlink -f "$0")")"
export VERIF_SHRINK_TIME="${VERIF_SHRINK_TIME:-5s}"
for d in "$here"/../preserving/$1; do id=$(basename $d); [ -f $d/patch.diff ] || continue
  for prop in ${PROPS:-C03 C04 C10 C11 C12 C13 C14 C19 C20}; do
    out=$(MUT_LINES=4 MUT_COLS=300 "$here/run_mutant.sh" $d/patch.diff $prop quick 2>&1 | grep -v WARNING)
    rc=$(echo "$out" | grep -o 'rc=[0-9]*' | tail -1); cls=$(echo "$out" | grep -m1 'class:\|INFRA\|UNSUPP\|PATCH' | sed 's/^ *class: //')
    echo "$id $prop $rc ${cls:-held}"
  done
done
