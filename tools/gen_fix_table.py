#!/usr/bin/env python3
"""gen_fix_table.py — print the §9 table of DESIGN.md (one row per fix: commit in /repo) from known_findings.json,
in the order of /repo's history; with --write, replace the table in DESIGN.md in place."""
import json,subprocess,sys,os,re
root=os.path.dirname(os.path.dirname(os.path.abspath(__file__)))
k=json.load(open(root+'/known_findings.json'))
log=subprocess.run(['git','-C','/repo','log','--reverse','--format=%h %s'],capture_output=True,text=True).stdout.split('\n')
order=[l.split()[0] for l in log if l and l.split(' ',1)[1].startswith('fix:')]
by={}
for f in k['findings']:
    if f['status']!='fixed': continue
    c=f['commit']; what=re.sub(r'^fixed: property=\S+ \S+ ','',f['what'])
    e=by.setdefault(c,{'props':[],'whats':[]})
    if f['property'] not in e['props']: e['props'].append(f['property'])
    if what not in e['whats']: e['whats'].append(what)
rows=['| commit | property | what failed (replay in findings/) |','|---|---|---|']
missing=[c for c in order if c not in by]
for c in order:
    if c in by:
        rows.append('| %s | %s | %s |'%(c,', '.join(sorted(by[c]['props'])),' / '.join(by[c]['whats']).replace('|','\\|')))
extra=[c for c in by if c not in order]
if missing or extra: print('fix commits without entry:',missing,'entries without commit:',extra,file=sys.stderr)
if '--write' in sys.argv:
    d=open(root+'/DESIGN.md').read()
    a=d.index('| commit | property | what failed (replay in findings/) |')
    b=d.index('\n\n',a)
    open(root+'/DESIGN.md','w').write(d[:a]+'\n'.join(rows)+d[b:])
    print(len(rows)-2,'rows written')
else:
    print('\n'.join(rows))
