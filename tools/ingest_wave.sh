#!/usr/bin/env bash
# ingest_wave.sh <out-dir> <wave-letter> <Cxx> — take a sub-agent's deliveries <out-dir>/<Cxx>/m{1,2}/ (patch.diff, demo_test.go,
# README.md), confirm each against /repo HEAD (tools/confirm_mutant.sh) and run the property's quick check on it.
# Writes seeded/<Cxx>-<w>-mN/{patch.diff,demo_test.go,AGENT_README.md,confirm.txt,firstrun.txt}; meta.json is written by hand after triage.
set -u
here="$(dirname "$(readlink -f "$0")")"; out="$1"; w="$2"; prop="$3"
export VERIF_SHRINK_TIME="${VERIF_SHRINK_TIME:-5s}"
for m in m1 m2; do
  src="$out/$prop/$m"; [ -s "$src/patch.diff" ] && [ -s "$src/demo_test.go" ] || { echo "$prop-$w-$m: delivery incomplete"; continue; }
  d="$here/../seeded/$prop-$w-$m"; mkdir -p "$d"
  cp "$src/patch.diff" "$src/demo_test.go" "$d/"; [ -f "$src/README.md" ] && cp "$src/README.md" "$d/AGENT_README.md"
  extra=""; grep -qi "\-race" "$d/AGENT_README.md" 2>/dev/null && extra="-race"
  "$here/confirm_mutant.sh" "$d" $extra > "$d/confirm.txt" 2>&1
  MUT_LINES=6 MUT_COLS=300 "$here/run_mutant.sh" "$d/patch.diff" "$prop" quick 2>&1 | grep -v WARNING > "$d/firstrun.txt"
  echo "== $prop-$w-$m: $(tr '\n' ';' < "$d/confirm.txt" | cut -c1-300)"
  echo "   first run: $(grep -m1 'class:' "$d/firstrun.txt" | sed 's/^ *//') $(grep -o 'rc=[0-9]*' "$d/firstrun.txt" | tail -1)"
done
