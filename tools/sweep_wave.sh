#!/usr/bin/env bash
# sweep_wave.sh <wave-letter> [tier] — run the seeded changes of one wave (seeded/Cxx-<w>-mN) against the check of the
# property in their name (used before meta.json exists); one line each.
set -u
here="$(dirname "$(readlink -f "$0")")"
w="$1"; tier="${2:-quick}"
export VERIF_SHRINK_TIME="${VERIF_SHRINK_TIME:-5s}"
for d in "$here"/../seeded/C*-$w-m*; do
  id=$(basename $d); prop=${id%%-*}
  out=$(MUT_LINES=3 MUT_COLS=200 "$here/run_mutant.sh" $d/patch.diff $prop $tier 2>&1 | grep -v WARNING)
  rc=$(echo "$out" | grep -o 'rc=[0-9]*' | tail -1)
  cls=$(echo "$out" | grep -m1 'class:' | sed 's/^ *class: //')
  echo "$id $prop $rc ${cls:-no violation}"
done
