#!/usr/bin/env bash
# sweep_list.sh <tier> <id>... — run the named seeded changes against the check of the property in their name
set -u
here="$(dirname "$(readlink -f "$0")")"
tier="$1"; shift
export VERIF_SHRINK_TIME="${VERIF_SHRINK_TIME:-5s}"
for id in "$@"; do
  d="$here/../seeded/$id"; prop=${id%%-*}
  [ -n "${SWEEP_PROP:-}" ] && prop="$SWEEP_PROP"
  out=$(MUT_LINES=3 MUT_COLS=200 "$here/run_mutant.sh" $d/patch.diff $prop $tier 2>&1 | grep -v WARNING)
  rc=$(echo "$out" | grep -o 'rc=[0-9]*' | tail -1)
  cls=$(echo "$out" | grep -m1 'class:' | sed 's/^ *class: //')
  echo "$id $prop $rc ${cls:-no violation}"
done
