#!/usr/bin/env bash
# sweep_reverts.sh — re-introduce each repaired defect (reverts/<commit>.diff undoes one fix: commit on top of HEAD)
# and run the check of the property it broke. With KEEP=1 the first replay of each is copied to findings/ as the
# regression case of that fixed defect.
set -u
here="$(dirname "$(readlink -f "$0")")"
export VERIF_SHRINK_TIME="${VERIF_SHRINK_TIME:-20s}"
while read commit prop; do
  [ -z "$commit" ] && continue
  keep=$(mktemp -d /tmp/revkeep-XXXXXX)
  out=$(MUT_KEEP_REPLAY=$keep MUT_LINES=3 MUT_COLS=200 "$here/run_mutant.sh" "$here/../reverts/$commit.diff" $prop ${1:-quick} 2>&1 | grep -v WARNING)
  rc=$(echo "$out" | grep -o 'rc=[0-9]*' | tail -1)
  cls=$(echo "$out" | grep -m1 'class:' | sed 's/^ *class: //')
  echo "$commit $prop $rc ${cls:-no violation}"
  if [ -n "${KEEP:-}" ] && ls $keep/*.json >/dev/null 2>&1; then
    f=$(ls $keep/*.json | head -1); cp $f "$here/../findings/$prop-fixed-$commit.json"
  fi
  rm -rf $keep
done <<LIST
12e371e C13
2451f04 C13
0c40b39 C11
e5a1a2c C11
0b3a844 C11
2239c91 C04
84e94f3 C04
d22380f C04
196f391 C03
35714b0 C03
c4348ae C03
c54641a C04
54310aa C03
8ddc59a C12
8bad8ee C12
f28473c C10
8542813 C10
721fc26 C10
060b397 C10
LIST
