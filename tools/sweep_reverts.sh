#!/usr/bin/env bash
# sweep_reverts.sh — re-introduce each repaired defect (reverts/<commit>.diff undoes one fix: commit on top of HEAD)
# and run the check of the property it broke. With KEEP=1 the first replay of each is copied to findings/ as the
# regression case of that fixed defect.
set -u
here="$(dirname "$(readlink -f "$0")")"
export VERIF_SHRINK_TIME="${VERIF_SHRINK_TIME:-20s}"
while read commit prop; do
  [ -z "$commit" ] && continue
  # an un-fix that a later repair has made meaningless (reverts/_moot/<commit>.MOOT.txt says why) is not run
  if [ -f "$here/../reverts/_moot/$commit.MOOT.txt" ]; then echo "$commit $prop moot (see reverts/_moot/$commit.MOOT.txt)"; continue; fi
  keep=$(mktemp -d /tmp/revkeep-XXXXXX)
  out=$(MUT_KEEP_REPLAY=$keep MUT_LINES=3 MUT_COLS=200 "$here/run_mutant.sh" "$here/../reverts/$commit.diff" $prop ${1:-quick} 2>&1 | grep -v WARNING)
  rc=$(echo "$out" | grep -o 'rc=[0-9]*' | tail -1)
  cls=$(echo "$out" | grep -m1 'class:' | sed 's/^ *class: //')
  echo "$commit $prop $rc ${cls:-no violation}"
  if [ -n "${KEEP:-}" ] && ls $keep/*.json >/dev/null 2>&1; then
    f=$(ls $keep/*.json | head -1); cp $f "$here/../findings/$prop-fixed-$commit.json"
  fi
  rm -rf $keep
done < <(python3 - "$here/../known_findings.json" <<'PY'
import json,sys
seen=set()
for f in json.load(open(sys.argv[1]))["findings"]:
    # one line per (commit, property): a repair recorded under two properties is undone against both checks
    if f["status"]=="fixed" and (f["commit"],f["property"]) not in seen:
        seen.add((f["commit"],f["property"])); print(f["commit"], f["property"])
PY
)
