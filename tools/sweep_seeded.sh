#!/usr/bin/env bash
# sweep_seeded.sh [tier] — run every seeded change against the check of the property it breaks; print one line each.
set -u
here="$(dirname "$(readlink -f "$0")")"
tier="${1:-quick}"
export VERIF_SHRINK_TIME="${VERIF_SHRINK_TIME:-5s}"
for d in "$here"/../seeded/C*; do
  id=$(basename $d); prop=$(python3 -c "import json,sys,re; m=json.load(open(sys.argv[1])); print(re.search(r\"(C[0-9][0-9]) quick\", m[\"checks_run\"][\"cmd\"]).group(1))" $d/meta.json)
  out=$(MUT_LINES=3 MUT_COLS=160 "$here/run_mutant.sh" $d/patch.diff $prop $tier 2>&1 | grep -v WARNING)
  rc=$(echo "$out" | grep -o 'rc=[0-9]*' | tail -1)
  cls=$(echo "$out" | grep -m1 'class:' | sed 's/^ *class: //')
  if echo "$out" | grep -q PATCH_DOES_NOT_APPLY; then cls="PATCH_DOES_NOT_APPLY (re-base it: tools/refresh_patches.sh)"; fi
  echo "$id $prop $rc ${cls:-no violation}"
done
